package main

import (
	"fmt"
	"gocv/vc"
)

func main() {
	p, err := vc.Load("/repo")
	if err != nil {
		panic(err)
	}
	for _, m := range vc.MapRanges(p) {
		fmt.Printf("%v %s#%d %s %s\n", m.OK, m.Func, m.Ordinal, m.Pos, m.Why)
	}
}
