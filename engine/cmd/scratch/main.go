package main

import (
	"fmt"
	"go/ast"
	"go/types"
	"strings"
	"gocv/vc"
)

func main() {
	p, err := vc.Load("/repo")
	if err != nil {
		panic(err)
	}
	for _, pkg := range p.Pkgs {
		for i, f := range pkg.Syntax {
			if strings.HasSuffix(pkg.CompiledGoFiles[i], "_test.go") { continue }
			for _, d := range f.Decls {
				fd, ok := d.(*ast.FuncDecl)
				if !ok || fd.Body == nil { continue }
				ast.Inspect(fd.Body, func(n ast.Node) bool {
					if rs, ok := n.(*ast.RangeStmt); ok {
						if _, isMap := pkg.TypesInfo.TypeOf(rs.X).Underlying().(*types.Map); isMap {
							ps := pkg.Fset.Position(rs.Pos())
							fmt.Printf("%s %s:%d\n", vc.FuncKey(pkg.Name, fd), ps.Filename[6:], ps.Line)
						}
					}
					return true
				})
			}
		}
	}
}
