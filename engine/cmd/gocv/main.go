package main

import (
	"sort"
	"flag"
	"fmt"
	"os"
	"time"

	"gocv/vc"
)

func main() {
	if len(os.Args) < 2 {
		fmt.Fprintln(os.Stderr, "usage: gocv check|dump ...")
		os.Exit(2)
	}
	switch os.Args[1] {
	case "check":
		fs := flag.NewFlagSet("check", flag.ExitOnError)
		prop := fs.String("property", "", "property id")
		tier := fs.String("tier", "quick", "quick|thorough")
		repo := fs.String("repo", "/repo", "repository root")
		verif := fs.String("verif", "/verif", "verif root")
		only := fs.String("only", "", "restrict to units whose name contains this")
		verbose := fs.Bool("v", false, "verbose")
		fs.Parse(os.Args[2:])
		os.Exit(vc.RunCheck(vc.CheckOpts{Prop: *prop, Tier: *tier, Repo: *repo, Verif: *verif, Only: *only, Verbose: *verbose, Start: time.Now()}))
	case "maporder":
		// prints every range-over-map loop with the verdict of the structural rules (used to refresh the baseline)
		p, err := vc.Load("/repo")
		if err != nil {
			fmt.Fprintln(os.Stderr, err)
			os.Exit(2)
		}
		for _, mr := range vc.MapRanges(p) {
			fmt.Printf("%v\t%s#%d\t%s\t%s\n", mr.OK, mr.Func, mr.Ordinal, mr.Pos, mr.Why)
		}
	case "aliases":
		// prints the alias-write events on package-level state and the fields that may hold package-level references
		p, err := vc.Load("/repo")
		if err != nil {
			fmt.Fprintln(os.Stderr, err)
			os.Exit(2)
		}
		evs, ft := vc.GlobalAliasWrites(p)
		for _, e := range evs {
			fmt.Println("EVENT", e.String())
		}
		var ks []string
		for k := range ft {
			ks = append(ks, k)
		}
		sort.Strings(ks)
		for _, k := range ks {
			fmt.Println("FIELD", k, ft[k])
		}
	case "why":
		p, err := vc.Load("/repo")
		if err != nil {
			fmt.Fprintln(os.Stderr, err)
			os.Exit(2)
		}
		for _, k := range p.WhyReach(os.Args[2], os.Args[3]) {
			fmt.Println(k)
		}
	case "replay":
		if len(os.Args) < 3 {
			fmt.Fprintln(os.Stderr, "usage: gocv replay <file>")
			os.Exit(2)
		}
		os.Exit(vc.RunReplayFile("/repo", "/verif", os.Args[2]))
	default:
		fmt.Fprintln(os.Stderr, "unknown command", os.Args[1])
		os.Exit(2)
	}
}
