package vc

import (
	"encoding/json"
	"os/exec"
	"fmt"
	"os"
	"path/filepath"
	"sort"
	"strconv"
	"strings"
	"time"
)

type CheckOpts struct {
	Prop    string
	Tier    string
	Repo    string
	Verif   string
	Only    string
	Verbose bool
	Start   time.Time
}

// RunCheck runs all units of a property; returns the process exit code.
func RunCheck(o CheckOpts) int {
	p, err := Load(o.Repo)
	if err != nil {
		fmt.Fprintln(os.Stderr, "gocv: load failed:", err)
		return 2
	}
	// extra contract files kept in /verif (cross-package lemmas)
	extra, _ := filepath.Glob(filepath.Join(o.Verif, "contracts", "*.contract"))
	for _, f := range extra {
		pkg := strings.TrimSuffix(filepath.Base(f), ".contract")
		if i := strings.Index(pkg, "_"); i >= 0 {
			pkg = pkg[:i]
		}
		if err := p.LoadExtraContracts(f, pkg); err != nil {
			fmt.Fprintln(os.Stderr, "gocv:", err)
			return 2
		}
	}
	BaselineDir = filepath.Join(o.Verif, "baseline")
	units := Units(p, o.Prop)
	if o.Only != "" {
		var f []*Unit
		for _, u := range units {
			if strings.Contains(u.Name, o.Only) {
				f = append(f, u)
			}
		}
		units = f
	}
	work := filepath.Join(o.Verif, "work", o.Prop)
	os.RemoveAll(work)
	os.MkdirAll(work, 0o755)
	timeout := 20 * time.Second
	if o.Tier == "thorough" {
		timeout = 60 * time.Second
	}
	var all []*Obligation
	for _, u := range units {
		all = append(all, u.World.Obls...)
	}
	// obligations recorded as known findings are expected to stay undischarged: one short attempt is enough
	// (a KF obligation that DOES get discharged is reported by Report as "no longer fails")
	kfNames := map[string]bool{}
	for _, kf := range loadKnownFindings(filepath.Join(o.Verif, "known_findings.json"), o.Prop) {
		kfNames[kf.Obligation] = true
	}
	for _, ob := range all {
		if kfNames[ob.Name] {
			ob.KnownFailing = true
		}
	}
	Discharge(all, SolverCfg{WorkDir: work, Timeout: timeout, AllAgree: o.Tier == "thorough"})
	return Report(p, units, o, work)
}

type Violation struct {
	Obligation string
	Reason     string
	Replay     string
	NoInput    bool
	Unit       *Unit
	ReplayInfo *ReplayResult
}

func Report(p *Program, units []*Unit, o CheckOpts, work string) int {
	nObl, nDis := 0, 0
	var viol []Violation
	bySolver := map[string]int{}
	solverSecs := map[string]float64{}
	var samples []map[string]interface{}
	var funcs []map[string]interface{}
	assumptions := map[string]bool{}
	covers := 0
	type slow struct {
		name string
		s    float64
	}
	var slows []slow
	for _, u := range units {
		fe := map[string]interface{}{"unit": u.Name, "file": u.File, "kind": u.Kind}
		if u.Err != "" {
			viol = append(viol, Violation{Obligation: o.Prop + "/" + u.Name + "/attach", Reason: u.Err, NoInput: true})
			fe["error"] = u.Err
			funcs = append(funcs, fe)
			nObl++
			continue
		}
		cnt := 0
		for _, ob := range u.World.Obls {
			if ob.Expect == "sat" {
				covers++
				if ob.Result == "unsat" {
					viol = append(viol, Violation{Obligation: ob.Name, Reason: "vacuous: cover query is unsatisfiable (contradictory contract or unreachable code)", NoInput: true})
				}
				continue
			}
			cnt++
			nObl++
			bySolver[ob.Solver]++
			solverSecs[ob.Solver] += ob.Seconds
			slows = append(slows, slow{ob.Name, ob.Seconds})
			if ob.Result == "unsat" {
				nDis++
				if len(samples) < 6 {
					samples = append(samples, map[string]interface{}{"obligation": ob.Name, "kind": ob.Kind, "result": ob.Result, "solver": ob.Solver, "seconds": round3(ob.Seconds), "smt_bytes": len(ob.SMT(false))})
				}
			} else {
				viol = append(viol, Violation{Obligation: ob.Name, Reason: "solver: " + ob.Result + " " + ob.Output, NoInput: true, Unit: u})
			}
			if o.Verbose {
				fmt.Printf("  %-8s %-7s %6.2fs %s\n", ob.Result, ob.Solver, ob.Seconds, ob.Name)
			}
		}
		if cnt == 0 {
			viol = append(viol, Violation{Obligation: o.Prop + "/" + u.Name + "/vacuity", Reason: "unit generated zero obligations", NoInput: true})
		}
		fe["obligations"] = cnt
		fe["safety_obligations"] = u.Safety
		var abs []string
		for _, k := range sortedKeys(u.World.Abstr) {
			abs = append(abs, fmt.Sprintf("%s (x%d)", k, u.World.Abstr[k]))
			assumptions["abstraction in "+u.Name+": "+k] = true
		}
		fe["abstractions"] = abs
		var inl []string
		for _, k := range sortedKeys(u.World.Inlined) {
			inl = append(inl, k)
		}
		fe["inlined_callees"] = inl
		funcs = append(funcs, fe)
	}
	if len(units) == 0 {
		viol = append(viol, Violation{Obligation: o.Prop + "/vacuity", Reason: "no contract is tagged with this property", NoInput: true})
	}
	// known findings: a listed obligation whose witness still fails on the real code is reported as KNOWN-FINDING
	var kfSeen []string
	if kfs := loadKnownFindings(filepath.Join(o.Verif, "known_findings.json"), o.Prop); len(kfs) > 0 {
		var rest []Violation
		for _, v := range viol {
			matched := false
			for _, kf := range kfs {
				if kf.Obligation != v.Obligation {
					continue
				}
				present, out := runWitness(o, kf)
				if present {
					fmt.Printf("KNOWN-FINDING: property=%s %s (obligation %s; witness %s still fails on the real code)\n", o.Prop, kf.What, kf.Obligation, kf.Witness.Run)
					kfSeen = append(kfSeen, kf.Obligation+": "+kf.What)
					matched = true
					nObl-- // not counted among the claimed obligations
				} else {
					v.Reason += " | listed known finding does not explain it: witness " + kf.Witness.Run + " passes on this tree: " + trimOut(out)
				}
			}
			if !matched {
				rest = append(rest, v)
			}
		}
		viol = rest
	}
	sort.Slice(slows, func(i, j int) bool { return slows[i].s > slows[j].s })
	var slowest []map[string]interface{}
	for i := 0; i < len(slows) && i < 5; i++ {
		slowest = append(slowest, map[string]interface{}{"obligation": slows[i].name, "seconds": round3(slows[i].s)})
	}
	// counterexample search + replay on the real code, once per failing function unit
	replays := map[*Unit]*ReplayResult{}
	nReplayed, nConfirmed := 0, 0
	for i := range viol {
		v := &viol[i]
		if v.Unit == nil || v.Unit.Contract == nil || v.Unit.Err != "" || os.Getenv("GOCV_NO_REPLAY") != "" {
			continue
		}
		rr, done := replays[v.Unit]
		if !done {
			r := SearchAndReplay(p, o, v.Unit.Contract, v.Obligation)
			rr = &r
			replays[v.Unit] = rr
			nReplayed++
			if rr.Status == "confirmed" {
				nConfirmed++
			}
		}
		v.ReplayInfo = rr
		if rr.Status == "confirmed" {
			v.NoInput = false
		}
	}
	// violations -> replay files
	replayDir := filepath.Join(o.Verif, "replay")
	os.MkdirAll(replayDir, 0o755)
	for i := range viol {
		v := &viol[i]
		fn := filepath.Join(replayDir, sanitize(v.Obligation)+".txt")
		body := fmt.Sprintf("property: %s\nobligation: %s\nreason: %s\n", o.Prop, v.Obligation, v.Reason)
		if rr := v.ReplayInfo; rr != nil {
			body += fmt.Sprintf("replay: %s\nreplay-detail: %s\nreplay-pkg: %s\nmodel-from-search-goal: %s\n", rr.Status, rr.Detail, rr.PkgDir, rr.Against)
			for k, val := range rr.Model {
				body += fmt.Sprintf("  input %s = %s\n", k, val)
			}
			if rr.Output != "" {
				body += "--- output of the replay on the real code ---\n" + rr.Output + "\n"
			}
			if rr.Test != "" {
				body += "--- generated replay test (run with: go test -overlay, see tools/replay.sh) ---\n" + rr.Test + "\n"
			}
		}
		os.WriteFile(fn, []byte(body), 0o644)
		v.Replay = fn
	}
	_ = nReplayed
	for _, v := range viol {
		suffix := ""
		if v.NoInput {
			suffix = " no-failing-input-found"
		}
		fmt.Printf("VIOLATION property=%s replay=%s obligation=%s%s\n", o.Prop, v.Replay, v.Obligation, suffix)
	}
	// thorough tier: sampled replays of the contracts on the real code (validation of contracts and of the engine's model)
	sampRun, sampPass, sampSkip := 0, 0, 0
	if o.Tier == "thorough" && os.Getenv("GOCV_NO_REPLAY") == "" {
		for _, u := range units {
			if u.Kind != "func" || u.Contract == nil || u.Err != "" {
				continue
			}
			r, ps, sk, fails := SampleReplay(p, o, u.Contract)
			sampRun += r
			sampPass += ps
			sampSkip += sk
			for _, f := range fails {
				fn := filepath.Join(replayDir, sanitize(o.Prop+"_sample_"+u.Name)+".txt")
				os.WriteFile(fn, []byte("property: "+o.Prop+"\nsampled replay of a precondition model violates the compiled contract on the real code\n"+f+"\n"), 0o644)
				fmt.Printf("VIOLATION property=%s replay=%s obligation=%s/%s/sampled-replay\n", o.Prop, fn, o.Prop, u.Name)
				viol = append(viol, Violation{Obligation: o.Prop + "/" + u.Name + "/sampled-replay", Reason: f, Replay: fn})
			}
		}
	}
	// bounded stand-ins (labelled, never counted as proved): exhaustive runs of the REAL code over a stated finite domain
	var bounded []map[string]interface{}
	if o.Only == "" {
		for _, bc := range loadBoundedChecks(filepath.Join(o.Verif, "bounded_checks.json"), o.Prop) {
			t0 := time.Now()
			failed, output := RunOverlayTest(o.Repo, o.Verif, bc.Pkg, filepath.Join(o.Verif, bc.File), bc.Run, "bounded_"+sanitize(bc.Run))
			status := "held on every element of the stated domain"
			if failed {
				status = "FAILED"
				fn := filepath.Join(replayDir, sanitize(o.Prop+"_bounded_"+bc.Name)+".txt")
				os.WriteFile(fn, []byte("property: "+o.Prop+"\nbounded check "+bc.Name+" ("+bc.Bound+") failed on the real code\nreplay-pkg: "+bc.Pkg+"\n--- output ---\n"+trimLong(output, 4000)+"\n"), 0o644)
				sfx := ""
				if !strings.Contains(output, "GOCV-BOUNDED: FAIL") {
					sfx = " no-failing-input-found"
				}
				fmt.Printf("VIOLATION property=%s replay=%s obligation=%s/bounded:%s%s\n", o.Prop, fn, o.Prop, bc.Name, sfx)
				viol = append(viol, Violation{Obligation: o.Prop + "/bounded:" + bc.Name, Reason: trimLong(output, 300), Replay: fn})
			}
			bounded = append(bounded, map[string]interface{}{"name": bc.Name, "functions": bc.Functions, "bound": bc.Bound, "why_not_proved": bc.Why, "status": status, "seconds": round3(time.Since(t0).Seconds())})
		}
	}
	seed, _ := strconv.Atoi(os.Getenv("VERIF_SEED"))
	var assume []string
	for k := range assumptions {
		assume = append(assume, k)
	}
	sort.Strings(assume)
	assume = append(assume, GlobalAssumptions...)
	bs := map[string]interface{}{}
	for k, v := range bySolver {
		bs[k] = map[string]interface{}{"obligations": v, "seconds": round3(solverSecs[k])}
	}
	ev := map[string]interface{}{
		"property_id": o.Prop, "tier": o.Tier, "seed": seed, "level": "proof",
		"coverage": map[string]interface{}{
			"obligations": nObl, "discharged": nDis,
			"checker_cmd":              fmt.Sprintf("bin/gocv check --property %s --tier %s", o.Prop, o.Tier),
			"trusted_base":             append([]string{"gocv VC generator (this repository, /verif/engine)", "z3 5.1.0 (z3-new), cvc5 1.0, z3 4.8.12", "go/types type checker"}, LibModels...),
			"functions_under_contract": funcs, "by_solver": bs, "slowest": slowest, "samples": samples,
			"vacuity_cover_queries": covers, "known_findings_seen": kfSeen,
			"sampled_replays_on_real_code": map[string]int{"run": sampRun, "passed": sampPass, "units_not_replayable": sampSkip},
			"counterexamples_replayed": nReplayed, "counterexamples_confirmed_on_real_code": nConfirmed,
			"bounded_stand_ins_not_counted_as_proved": bounded,
		},
		"assumptions": assume, "wall_s": round3(time.Since(o.Start).Seconds()), "violations": len(viol),
	}
	if o.Only == "" {
		// partial runs (--only, used while developing contracts) never overwrite the evidence of a full run
		os.MkdirAll(filepath.Join(o.Verif, "evidence"), 0o755)
		data, _ := json.MarshalIndent(ev, "", " ")
		os.WriteFile(filepath.Join(o.Verif, "evidence", o.Prop+".json"), data, 0o644)
	}
	fmt.Printf("%s: %d units, %d obligations, %d discharged, %d violations, %.1fs\n", o.Prop, len(units), nObl, nDis, len(viol), time.Since(o.Start).Seconds())
	if len(viol) > 0 {
		return 1
	}
	return 0
}

func round3(f float64) float64 { return float64(int(f*1000+0.5)) / 1000 }

var GlobalAssumptions = []string{
	"A1: int/int64 arithmetic is mathematical (no overflow); narrow unsigned/signed types are exact (mod 2^k)",
	"A2: float64 is verified as real arithmetic (no NaN/Inf/rounding)",
	"A3: slices/strings are value sequences (backing array, offset, length); aliasing between distinct live slices is not modelled",
	"A4: Go semantics as implemented by the gocv lowering (validated by the must-fail selftest corpus, not proved)",
	"A5: pointers are owned boxes: two distinct pointer-typed variables/fields never alias the same object unless the contract says so (noalias/fresh rules check the places where the code would create such aliasing for C10/C19)",
	"A6: inferred field frames: a callee leaves a struct field unchanged when neither it nor anything reachable from it in the over-approximate call graph (interface dispatch by method name; calls through function values reach every closure literal and every function used as a value) assigns the field, takes its address, stores a whole struct of that type through a pointer, hands a pointer to it to a library function, or - for non-scalar fields - mentions it in a function that is not syntactically read-only (sound under A5)",
	"A7: an unsat answer from one SMT solver is accepted in the quick tier",
	"A11: (C03 alias analysis) library functions neither write through nor retain reference arguments except the listed mutators (sort.*, slices.Sort*, io.ReadFull, Read/ReadAt/Decode/Scan methods, Unmarshal); append on a package-level slice reallocates (cap == len for composite literals); reflection/unsafe/goroutine hand-off are not followed",
	"A9: values of library struct types (zip.File, html.Node, ...) are opaque; library calls on them do not change the fields contracts read",
}

type KnownFinding struct {
	Property   string `json:"property"`
	Obligation string `json:"obligation"`
	What       string `json:"what"`
	Witness    struct {
		Pkg  string `json:"pkg"`
		File string `json:"file"`
		Run  string `json:"run"`
	} `json:"witness"`
}

type BoundedCheck struct {
	Property  string   `json:"property"`
	Name      string   `json:"name"`
	Functions []string `json:"functions"`
	Bound     string   `json:"bound"`
	Why       string   `json:"why_not_proved"`
	Pkg       string   `json:"pkg"`
	File      string   `json:"file"`
	Run       string   `json:"run"`
}

func loadBoundedChecks(path, prop string) []BoundedCheck {
	data, err := os.ReadFile(path)
	if err != nil {
		return nil
	}
	var doc struct {
		Checks []BoundedCheck `json:"checks"`
	}
	if json.Unmarshal(data, &doc) != nil {
		return nil
	}
	var out []BoundedCheck
	for _, c := range doc.Checks {
		if c.Property == prop {
			out = append(out, c)
		}
	}
	return out
}

func loadKnownFindings(path, prop string) []KnownFinding {
	data, err := os.ReadFile(path)
	if err != nil {
		return nil
	}
	var doc struct {
		Findings []KnownFinding `json:"findings"`
	}
	if json.Unmarshal(data, &doc) != nil {
		return nil
	}
	var out []KnownFinding
	for _, f := range doc.Findings {
		if f.Property == prop {
			out = append(out, f)
		}
	}
	return out
}

// runWitness injects the finding's test into the package with go test -overlay; true = the test fails (defect present).
func runWitness(o CheckOpts, kf KnownFinding) (bool, string) {
	return RunOverlayTest(o.Repo, o.Verif, kf.Witness.Pkg, filepath.Join(o.Verif, kf.Witness.File), kf.Witness.Run, "kf_"+sanitize(kf.Witness.Run))
}

// RunOverlayTest runs one in-package test file against /repo without writing into it. Returns (failed, output).
func RunOverlayTest(repo, verif, pkg, testFile, run, tag string) (bool, string) {
	work := filepath.Join(verif, "work", "overlay")
	os.MkdirAll(work, 0o755)
	target := filepath.Join(repo, pkg, "zz_"+tag+"_test.go")
	ov := map[string]interface{}{"Replace": map[string]string{target: testFile}}
	data, _ := json.Marshal(ov)
	ovFile := filepath.Join(work, tag+".json")
	os.WriteFile(ovFile, data, 0o644)
	args := []string{"test", "-overlay", ovFile, "-vet=off", "-count=1", "-timeout", "120s", "-run", "^" + run + "$", "./" + pkg + "/"}
	cmd := execCommand(repo, "go", args...)
	out, err := cmd.CombinedOutput()
	return err != nil, string(out)
}

func execCommand(dir, name string, args ...string) *exec.Cmd {
	cmd := exec.Command(name, args...)
	cmd.Dir = dir
	cmd.Env = append(os.Environ(), "GOFLAGS=-mod=mod", "GOPROXY=off", "GOSUMDB=off", "GOTOOLCHAIN=local")
	return cmd
}

// RunReplayFile re-runs the generated test stored in a replay file against the current /repo.
func RunReplayFile(repo, verif, path string) int {
	data, err := os.ReadFile(path)
	if err != nil {
		fmt.Println(err)
		return 2
	}
	text := string(data)
	fmt.Print(text[:min(len(text), strings.Index(text+"--- generated", "--- generated"))])
	k := strings.Index(text, "--- generated replay test")
	if k < 0 {
		fmt.Println("(no generated replay test in this file: the obligation is reported without a failing input)")
		return 0
	}
	test := text[k:]
	test = test[strings.Index(test, "\n")+1:]
	pkg := ""
	for _, l := range strings.Split(text, "\n") {
		if strings.HasPrefix(l, "replay-pkg: ") {
			pkg = strings.TrimSpace(strings.TrimPrefix(l, "replay-pkg: "))
		}
	}
	work := filepath.Join(verif, "work", "replay")
	os.MkdirAll(work, 0o755)
	tf := filepath.Join(work, "zz_gocv_replay_test.go")
	os.WriteFile(tf, []byte(test), 0o644)
	failed, out := RunOverlayTest(repo, verif, pkg, tf, "TestGocvReplay", "gocv_replay")
	fmt.Println("--- re-run on the current tree ---")
	fmt.Println(out)
	if failed {
		return 1
	}
	return 0
}
