package vc

import (
	"os"
	"fmt"
	"go/ast"
	"go/constant"
	"go/token"
	"go/types"
	"math/big"
	"strings"
)

func (x *Exec) evalAs(e ast.Expr, env *Env, want types.Type) Term {
	t := x.eval(e, env)
	if want != nil {
		ws := x.W.SortOf(want)
		if t.Sort == SInt && ws == SReal {
			t = ToReal(t)
		}
		if isUntypedNil(x.cx.info.TypeOf(e)) {
			z := x.zero(want)
			return z
		}
		if t.Sort != ws && t.Sort != "" && strings.HasPrefix(string(ws), "U_") {
			t = x.coerce(t, ws)
			if t.Sort != ws {
				// a concrete value stored in an interface-typed slot: an injective embedding per concrete Go type;
				// the dynamic type of the box is that type and the type assertion gives the value back
				ct := x.cx.info.TypeOf(e)
				_, wantIface := want.Underlying().(*types.Interface)
				_, isIface := (types.Type)(nil), false
				if ct != nil {
					_, isIface = ct.Underlying().(*types.Interface)
				}
				if wantIface && ct != nil && !isIface && !x.termMode && x.noFacts == 0 {
					name := "box_" + sanitize(types.TypeString(ct, nil)) + "_to_" + sanitize(string(ws))
					x.W.DeclareFun(name, []Sort{t.Sort}, ws)
					b := T("("+name+" "+t.S+")", ws)
					b.GoT = want
					x.W.AddFact(env.pc, And(x.dynTypeIs(b, ct), Eq(x.dynValue(b, ct), t)))
					t = b
				} else {
					t = x.opaqueFrom(t, ws)
					t.GoT = want
				}
			}
		}
	}
	return t
}

func (x *Exec) evalMulti(e ast.Expr, env *Env) []Term {
	e = ast.Unparen(e)
	switch e := e.(type) {
	case *ast.CallExpr:
		return x.evalCall(e, env)
	case *ast.IndexExpr:
		// v, ok := m[k]
		if tv, ok := x.cx.info.Types[e]; ok {
			if tup, ok := tv.Type.(*types.Tuple); ok && tup.Len() == 2 {
				m := x.eval(e.X, env)
				mt := x.cx.info.TypeOf(e.X).Underlying().(*types.Map)
				k := x.evalAs(e.Index, env, mt.Key())
				dom, _ := x.W.Field(m, "dom")
				val, _ := x.W.Field(m, "val")
				v := Select(val, k)
				v.GoT = mt.Elem()
				x.typeFactsIf(v, mt.Elem(), env)
				return []Term{v, Select(dom, k)}
			}
		}
	case *ast.TypeAssertExpr:
		if tv, ok := x.cx.info.Types[e]; ok {
			if tup, ok := tv.Type.(*types.Tuple); ok && tup.Len() == 2 {
				sv := x.eval(e.X, env)
				tt := x.cx.info.TypeOf(e.Type)
				return []Term{x.dynValue(sv, tt), x.dynTypeIs(sv, tt)}
			}
		}
	}
	return []Term{x.eval(e, env)}
}

func (x *Exec) typeFactsIf(v Term, t types.Type, env *Env) {
	if x.termMode {
		return
	}
	x.typeFacts(v, t, env.pc)
}

func (x *Exec) eval(e ast.Expr, env *Env) Term {
	info := x.cx.info
	if tv, ok := info.Types[e]; ok && tv.Value != nil {
		so := x.W.SortOf(tv.Type)
		if t, ok := ConstTerm(x.W, tv.Value, so); ok {
			t.GoT = tv.Type
			return t
		}
	}
	switch e := e.(type) {
	case *ast.ParenExpr:
		return x.eval(e.X, env)
	case *ast.Ident:
		return x.evalIdent(e, env)
	case *ast.BasicLit:
		unsupported("literal without constant value %s", e.Value)
	case *ast.UnaryExpr:
		switch e.Op {
		case token.NOT:
			return Not(x.eval(e.X, env))
		case token.SUB:
			v := x.eval(e.X, env)
			t := info.TypeOf(e)
			var r Term
			if v.Sort == SReal {
				r = T("(- "+v.S+")", SReal)
			} else {
				r = wrap(T("(- "+v.S+")", SInt), t)
			}
			r.GoT = t
			return r
		case token.ADD:
			return x.eval(e.X, env)
		case token.AND:
			v := x.eval(e.X, env)
			v.GoT = info.TypeOf(e)
			if !x.termMode {
				pn := "isnilptr_" + sanitize(string(v.Sort))
				x.W.DeclareFun(pn, []Sort{v.Sort}, SBool)
				x.W.AddFact(env.pc, Not(T("("+pn+" "+v.S+")", SBool)))
			}
			return v
		case token.XOR:
			v := x.eval(e.X, env)
			t := info.TypeOf(e)
			// ^x = -x-1 for signed; for unsigned: max - x
			if b, ok := t.Underlying().(*types.Basic); ok {
				if _, hi, ok := intRange(b); ok && b.Info()&types.IsUnsigned != 0 {
					return Arith("-", hi, v)
				}
			}
			return Arith("-", T("(- "+v.S+")", SInt), IntLit(1))
		}
		unsupported("unary %s", e.Op)
	case *ast.BinaryExpr:
		switch e.Op {
		case token.LAND:
			l := x.eval(e.X, env)
			sub := x.branch(env, l)
			r := x.eval(e.Y, sub)
			x.mergeBack(env, sub, l)
			return And(l, r)
		case token.LOR:
			l := x.eval(e.X, env)
			sub := x.branch(env, Not(l))
			r := x.eval(e.Y, sub)
			x.mergeBack(env, sub, Not(l))
			return Or(l, r)
		}
		lt, rt := info.TypeOf(e.X), info.TypeOf(e.Y)
		var l, r Term
		if isUntypedNil(rt) {
			l = x.eval(e.X, env)
			return x.nilCompare(e.Op, l, lt, e.X, env)
		}
		if isUntypedNil(lt) {
			r = x.eval(e.Y, env)
			return x.nilCompare(e.Op, r, rt, e.Y, env)
		}
		if e.Op == token.EQL || e.Op == token.NEQ {
			// comparison with a sentinel error of a library (err == io.EOF): errors are Booleans (non-nil) in
			// this encoding, so the test is "err is non-nil and is that sentinel"; the second part is one
			// unconstrained Boolean per (error term, sentinel) - consistent when the same test is repeated
			if sv, other := x.libErrorSentinel(e.X), e.Y; sv != nil || x.libErrorSentinel(e.Y) != nil {
				if sv == nil {
					sv, other = x.libErrorSentinel(e.Y), e.X
				}
				ov := x.eval(other, env)
				if ov.Sort == SBool {
					cname := "is_" + sanitize(sv.Pkg().Name()+"_"+sv.Name()) + "!" + sanitize(ov.S)
					if len(cname) > 120 {
						cname = x.named("errv", ov).S + "_is_" + sanitize(sv.Pkg().Name()+"_"+sv.Name())
					}
					c := x.W.DeclareConst(cname, SBool)
					eq := And(ov, c)
					if e.Op == token.NEQ {
						return Not(eq)
					}
					return eq
				}
			}
		}
		l = x.eval(e.X, env)
		r = x.eval(e.Y, env)
		return x.binop(e.Op, l, r, info.TypeOf(e), rt, env, e.Y, e)
	case *ast.CallExpr:
		rs := x.evalCall(e, env)
		if len(rs) == 0 {
			return Term{S: "", Sort: ""}
		}
		return rs[0]
	case *ast.IndexExpr:
		return x.evalIndex(e, env)
	case *ast.SliceExpr:
		return x.evalSlice(e, env)
	case *ast.SelectorExpr:
		if sel, ok := info.Selections[e]; ok {
			if sel.Kind() == types.FieldVal {
				base := x.eval(e.X, env)
				r, ok := x.getFieldPath(base, info.TypeOf(e.X), sel.Index())
				if !ok {
					if strings.HasPrefix(string(base.Sort), "U_") {
						bb := base
						bb.GoT = info.TypeOf(e.X)
						if r, ok := x.opaqueField(bb, e.Sel.Name); ok {
							x.typeFactsIf(r, r.GoT, env)
							return r
						}
					}
					x.W.Note("field read on unmodelled struct: " + types.ExprString(e))
					return x.freshOrFail(e, info.TypeOf(e))
				}
				r.GoT = info.TypeOf(e)
				x.typeFactsIf(r, r.GoT, env)
				return r
			}
			unsupported("method value %s", types.ExprString(e))
		}
		// qualified identifier
		return x.evalObj(info.Uses[e.Sel], e, env)
	case *ast.StarExpr:
		v := x.eval(e.X, env)
		v.GoT = info.TypeOf(e)
		return v
	case *ast.CompositeLit:
		return x.evalCompositeLit(e, env)
	case *ast.TypeAssertExpr:
		sv := x.eval(e.X, env)
		tt := info.TypeOf(e.Type)
		x.safetyCheck(env, "typeassert", types.ExprString(e), x.dynTypeIs(sv, tt))
		return x.dynValue(sv, tt)
	case *ast.FuncLit:
		unsupported("function literal as value")
	}
	unsupported("expression %T", e)
	return Term{}
}

func (x *Exec) freshOrFail(e ast.Expr, t types.Type) Term {
	if x.termMode {
		unsupported("abstraction in term mode: %s", types.ExprString(e))
	}
	return x.fresh("abs", t)
}

// mergeBack folds variable changes made in a short-circuit sub-environment back into env.
func (x *Exec) mergeBack(env, sub *Env, cond Term) {
	for k, v := range sub.vars {
		if old, ok := env.vars[k]; ok && old.S != v.S {
			env.vars[k] = Ite(cond, v, old)
		}
	}
}

func (x *Exec) nilCompare(op token.Token, v Term, t types.Type, e ast.Expr, env *Env) Term {
	var isNil Term
	switch u := t.Underlying().(type) {
	case *types.Slice:
		// nil slice: modelled as len == 0 && isnil flag unknown; only len is observable in our subset
		name := "isnil_" + sanitize(string(v.Sort))
		x.W.DeclareFun(name, []Sort{v.Sort}, SBool)
		isNil = T("("+name+" "+v.S+")", SBool)
		if !x.termMode {
			x.W.AddFact(env.pc, Implies(isNil, Eq(x.W.SeqLen(v), IntLit(0))))
		}
	case *types.Interface:
		if v.Sort == SBool {
			isNil = Not(v)
		} else {
			// the nil interface is the distinguished zero value of the (opaque) interface sort
			isNil = Eq(v, x.zero(t))
		}
	case *types.Map:
		name := "isnil_" + sanitize(string(v.Sort))
		if !x.W.constSeen[name] && x.W.IsMap(v.Sort) {
			x.W.DeclareFun(name, []Sort{v.Sort}, SBool)
			// a nil map is empty
			d := x.W.datas[v.Sort]
			x.W.Facts = append(x.W.Facts, fmt.Sprintf("(forall ((m %s)) (! (=> (%s m) (= (%s m) 0)) :pattern ((%s m))))", v.Sort, name, d.Fields[2].Sel, name))
			// ... and has no keys
			if ks, _ := arrayKV(d.Fields[0].Sort); ks != "" {
				x.W.Facts = append(x.W.Facts, fmt.Sprintf("(forall ((m %s) (k %s)) (! (=> (%s m) (not (select (%s m) k))) :pattern ((%s m) (select (%s m) k))))", v.Sort, ks, name, d.Fields[0].Sel, name, d.Fields[0].Sel))
			}
		}
		x.W.DeclareFun(name, []Sort{v.Sort}, SBool)
		isNil = T("("+name+" "+v.S+")", SBool)
	case *types.Pointer:
		_ = u
		name := "isnilptr_" + sanitize(string(v.Sort))
		x.W.DeclareFun(name, []Sort{v.Sort}, SBool)
		isNil = T("("+name+" "+v.S+")", SBool)
	default:
		name := "isnil_" + sanitize(string(v.Sort))
		x.W.DeclareFun(name, []Sort{v.Sort}, SBool)
		isNil = T("("+name+" "+v.S+")", SBool)
	}
	if op == token.EQL {
		return isNil
	}
	return Not(isNil)
}

func (x *Exec) evalIdent(e *ast.Ident, env *Env) Term {
	info := x.cx.info
	obj := info.Uses[e]
	if obj == nil {
		obj = info.Defs[e]
	}
	return x.evalObj(obj, e, env)
}

func (x *Exec) evalObj(obj types.Object, e ast.Expr, env *Env) Term {
	switch o := obj.(type) {
	case *types.Nil:
		t := x.cx.info.TypeOf(e)
		return x.zero(t)
	case *types.Const:
		so := x.W.SortOf(o.Type())
		if t, ok := ConstTerm(x.W, o.Val(), so); ok {
			t.GoT = o.Type()
			return t
		}
	case *types.Var:
		if x.cx.aliases != nil {
			if tgt, isAlias := x.cx.aliases[o]; isAlias {
				v := x.eval(tgt, env)
				v.GoT = o.Type()
				return v
			}
		}
		if v, ok := env.vars[o]; ok {
			if v.GoT == nil {
				v.GoT = o.Type()
			}
			return v
		}
		if o.Parent() != nil && o.Pkg() != nil && o.Parent() == o.Pkg().Scope() {
			return x.globalVar(o)
		}
		// captured variable of an enclosing function (closures) or unknown: look by name
		unsupported("unbound variable %s", o.Name())
	}
	unsupported("identifier %s", types.ExprString(e))
	return Term{}
}

// libErrorSentinel: e names a package-level error variable of a package outside the module (io.EOF, ...).
func (x *Exec) libErrorSentinel(e ast.Expr) *types.Var {
	var id *ast.Ident
	switch v := ast.Unparen(e).(type) {
	case *ast.Ident:
		id = v
	case *ast.SelectorExpr:
		id = v.Sel
	default:
		return nil
	}
	o, ok := x.cx.info.Uses[id].(*types.Var)
	if !ok || o.Pkg() == nil || o.Parent() != o.Pkg().Scope() {
		return nil
	}
	if x.pkgOf(o.Pkg()) != nil {
		return nil
	}
	if !types.Identical(o.Type(), types.Universe.Lookup("error").Type()) {
		return nil
	}
	return o
}

// globalVar: package-level variable. Tables initialised by composite literals of constants are read from the AST.
func (x *Exec) globalVar(o *types.Var) Term {
	if v, ok := x.globals[o]; ok {
		return v
	}
	name := "glob_" + sanitize(o.Pkg().Name()+"_"+o.Name())
	so := x.W.SortOf(o.Type())
	if so == SBool && x.pkgOf(o.Pkg()) == nil && types.Identical(o.Type(), types.Universe.Lookup("error").Type()) {
		// a library's sentinel error used as a value is a non-nil error
		v := True
		v.GoT = o.Type()
		return v
	}
	v := x.W.DeclareConst(name, so)
	v.GoT = o.Type()
	x.globals[o] = v
	// try to find a constant initialiser
	if pkg := x.pkgOf(o.Pkg()); pkg != nil {
		for _, f := range pkg.Syntax {
			for _, d := range f.Decls {
				gd, ok := d.(*ast.GenDecl)
				if !ok || gd.Tok != token.VAR {
					continue
				}
				for _, sp := range gd.Specs {
					vs := sp.(*ast.ValueSpec)
					for i, n := range vs.Names {
						if pkg.TypesInfo.Defs[n] == o && i < len(vs.Values) {
							if t, ok := x.constInit(pkg.TypesInfo, vs.Values[i], o.Type()); ok {
								x.W.Facts = append(x.W.Facts, Eq(v, t).S)
							}
						}
					}
				}
			}
		}
	}
	return v
}

func (x *Exec) pkgOf(tp *types.Package) *pkgT {
	for _, p := range x.P.Pkgs {
		if p.Types == tp {
			return p
		}
	}
	return nil
}

// constInit evaluates an initialiser consisting only of constants / composite literals of constants.
func (x *Exec) constInit(info *types.Info, e ast.Expr, t types.Type) (res Term, ok bool) {
	defer func() {
		if r := recover(); r != nil {
			if _, isU := r.(Unsupported); isU {
				ok = false
				return
			}
			panic(r)
		}
	}()
	saved := x.cx
	x.cx = &fctx{fi: saved.fi, info: info, closures: map[types.Object]*ast.FuncLit{}}
	defer func() { x.cx = saved }()
	tm := x.termMode
	x.termMode = true
	defer func() { x.termMode = tm }()
	env := &Env{vars: map[types.Object]Term{}, pc: True}
	return x.evalAs(e, env, t), true
}

func (x *Exec) eqTerms(a, b Term) Term {
	if x.W.IsSeq(a.Sort) && a.Sort == b.Sort {
		return x.seqEq(a, b)
	}
	if isArraySort(a.Sort) && a.Sort == b.Sort && a.S != b.S {
		// Go fixed-size arrays: equality of the N elements only
		for _, t := range []types.Type{a.GoT, b.GoT} {
			if at, ok := typeUnder(t).(*types.Array); ok && at.Len() <= 32 {
				var cs []Term
				for i := int64(0); i < at.Len(); i++ {
					ea, eb := Select(a, IntLit(i)), Select(b, IntLit(i))
					ea.GoT, eb.GoT = at.Elem(), at.Elem()
					cs = append(cs, x.eqTerms(ea, eb))
				}
				return And(cs...)
			}
		}
	}
	return Eq(a, b)
}

// seqEq: extensional equality of sequences (strings).
func (x *Exec) seqEq(a, b Term) Term {
	// literal on one side: expand
	if n, ok := litLen(x.W, b); ok {
		return x.seqEqLit(a, b, n)
	}
	if n, ok := litLen(x.W, a); ok {
		return x.seqEqLit(b, a, n)
	}
	x.W.nfresh++
	q := fmt.Sprintf("q!%d", x.W.nfresh)
	qi := T(q, SInt)
	body := Implies(And(Cmp("<=", IntLit(0), qi), Cmp("<", qi, x.W.SeqLen(a))), Eq(x.W.SeqAt(a, qi), x.W.SeqAt(b, qi)))
	return And(Eq(x.W.SeqLen(a), x.W.SeqLen(b)), T("(forall (("+q+" Int)) "+body.S+")", SBool))
}

func litLen(w *World, t Term) (int, bool) {
	// literal strings are (mk_Seq_Int <stores> 0 n)
	pfx := "(mk_Seq_Int (store"
	if strings.HasPrefix(t.S, "(mk_Seq_Int ((as const") || strings.HasPrefix(t.S, pfx) {
		parts := strings.Fields(t.S)
		last := strings.TrimSuffix(parts[len(parts)-1], ")")
		off := parts[len(parts)-2]
		var n int
		if _, err := fmt.Sscanf(last, "%d", &n); err == nil && off == "0" {
			return n, true
		}
	}
	return 0, false
}

func (x *Exec) seqEqLit(a, lit Term, n int) Term {
	cs := []Term{Eq(x.W.SeqLen(a), IntLit(int64(n)))}
	for i := 0; i < n; i++ {
		cs = append(cs, Eq(x.W.SeqAt(a, IntLit(int64(i))), x.W.SeqAt(lit, IntLit(int64(i)))))
	}
	return And(cs...)
}

func (x *Exec) binop(op token.Token, l, r Term, resT, rT types.Type, env *Env, rExpr ast.Expr, whole ast.Node) Term {
	isReal := l.Sort == SReal || r.Sort == SReal
	var res Term
	switch op {
	case token.ADD:
		if x.W.IsSeq(l.Sort) {
			res = x.concat(l, r, env)
			res.GoT = resT
			return res
		}
		res = Arith("+", l, r)
	case token.SUB:
		res = Arith("-", l, r)
	case token.MUL:
		res = Arith("*", l, r)
		if _, lc := bigConst(l); !lc && !x.termMode && res.Sort == SInt {
			if _, rc := bigConst(r); !rc {
				res = x.named("mul", wrap(res, resT))
			}
		}
	case token.QUO:
		if isReal {
			l, r = coerceNum(l, r)
			x.safetyCheckDiv(env, r, rExpr, true)
			res = T("(/ "+l.S+" "+r.S+")", SReal)
		} else {
			x.safetyCheckDiv(env, r, rExpr, false)
			res = T("(gdiv "+l.S+" "+r.S+")", SInt)
		}
	case token.REM:
		x.safetyCheckDiv(env, r, rExpr, false)
		res = T("(gmod "+l.S+" "+r.S+")", SInt)
	case token.EQL:
		return x.eqTerms(l, r)
	case token.NEQ:
		return Not(x.eqTerms(l, r))
	case token.LSS:
		return x.cmpOrd("<", l, r)
	case token.LEQ:
		return x.cmpOrd("<=", l, r)
	case token.GTR:
		return x.cmpOrd(">", l, r)
	case token.GEQ:
		return x.cmpOrd(">=", l, r)
	case token.SHL:
		if n, ok := smallConst(r); ok {
			res = T(fmt.Sprintf("(* %s %s)", l.S, new(big.Int).Lsh(big.NewInt(1), uint(n)).String()), SInt)
		} else {
			res = T("(* "+l.S+" (pow2U "+r.S+"))", SInt)
			x.pow2Facts(r, env)
		}
	case token.SHR:
		if n, ok := smallConst(r); ok {
			res = T(fmt.Sprintf("(div %s %s)", l.S, new(big.Int).Lsh(big.NewInt(1), uint(n)).String()), SInt)
		} else {
			res = T("(div "+l.S+" (pow2U "+r.S+"))", SInt)
			x.pow2Facts(r, env)
		}
	case token.AND:
		if n, ok := bigConst(r); ok {
			// mask 2^k-1
			np1 := new(big.Int).Add(n, big.NewInt(1))
			if n.Sign() >= 0 && np1.BitLen() > 0 && new(big.Int).And(np1, n).Sign() == 0 {
				res = T("(mod "+l.S+" "+np1.String()+")", SInt)
				break
			}
		}
		res = T("(bandU "+l.S+" "+r.S+")", SInt)
		if !x.termMode {
			x.W.AddFact(env.pc, Implies(And(Cmp(">=", l, IntLit(0)), Cmp(">=", r, IntLit(0))), And(Cmp(">=", res, IntLit(0)), Cmp("<=", res, l), Cmp("<=", res, r))))
		}
	case token.OR:
		// (a<<c)|b with 0<=b<2^c is a*2^c+b; decided by the solver through the ite
		if k, ok := shiftAmount(l); ok {
			lim := new(big.Int).Lsh(big.NewInt(1), uint(k)).String()
			res = T(fmt.Sprintf("(ite (and (<= 0 %s) (< %s %s)) (+ %s %s) (borU %s %s))", r.S, r.S, lim, l.S, r.S, l.S, r.S), SInt)
		} else if k, ok := shiftAmount(r); ok {
			lim := new(big.Int).Lsh(big.NewInt(1), uint(k)).String()
			res = T(fmt.Sprintf("(ite (and (<= 0 %s) (< %s %s)) (+ %s %s) (borU %s %s))", l.S, l.S, lim, l.S, r.S, l.S, r.S), SInt)
		} else {
			res = T("(borU "+l.S+" "+r.S+")", SInt)
		}
	case token.XOR:
		res = T("(bxorU "+l.S+" "+r.S+")", SInt)
	case token.AND_NOT:
		res = T("(bandU "+l.S+" (- (- "+r.S+") 1))", SInt)
	default:
		unsupported("binary operator %s", op)
	}
	if res.Sort == SInt && !x.termMode && x.cx != nil && x.cx.fc != nil && (x.cx.fc.Flags["overflow"] || os.Getenv("GOCV_OVERFLOW") != "") && (op == token.ADD || op == token.SUB || op == token.MUL) {
		// flags overflow: int/int64 arithmetic of this unit is checked against the 64-bit range instead of being
		// assumed mathematical (assumption A1 is discharged for the unit)
		if b, ok := resT.Underlying().(*types.Basic); ok && (b.Kind() == types.Int || b.Kind() == types.Int64 || b.Kind() == types.UntypedInt) {
			detail := ""
			if whole != nil {
				if e, isE := whole.(ast.Expr); isE {
					detail = types.ExprString(e)
				}
			}
			x.safetyCheck(env, "overflow", detail, And(Cmp("<=", T("(- 9223372036854775808)", SInt), res), Cmp("<=", res, T("9223372036854775807", SInt))))
		}
	}
	if res.Sort == SInt {
		res = wrap(res, resT)
	}
	res.GoT = resT
	return res
}

func (x *Exec) pow2Facts(n Term, env *Env) {
	if x.termMode {
		return
	}
	// pow2U(n) = 2^n for 0 <= n <= 64, tabulated
	var cs []Term
	for i := 0; i <= 64; i++ {
		cs = append(cs, Implies(Eq(n, IntLit(int64(i))), Eq(T("(pow2U "+n.S+")", SInt), T(new(big.Int).Lsh(big.NewInt(1), uint(i)).String(), SInt))))
	}
	x.W.AddFact(env.pc, And(cs...))
}

func shiftAmount(t Term) (int, bool) {
	// matches (mod (* X 2^k) M) or (* X 2^k)
	s := t.S
	if strings.HasPrefix(s, "(mod (* ") {
		s = s[len("(mod "):]
		// strip trailing " M)"
		if i := strings.LastIndex(s, " "); i > 0 {
			s = s[:i]
		}
	}
	if !strings.HasPrefix(s, "(* ") || !strings.HasSuffix(s, ")") {
		return 0, false
	}
	i := strings.LastIndex(s, " ")
	num := s[i+1 : len(s)-1]
	n, ok := new(big.Int).SetString(num, 10)
	if !ok || n.Sign() <= 0 {
		return 0, false
	}
	if new(big.Int).And(n, new(big.Int).Sub(n, big.NewInt(1))).Sign() != 0 {
		return 0, false
	}
	return n.BitLen() - 1, true
}

func smallConst(t Term) (int, bool) {
	n, ok := bigConst(t)
	if !ok || !n.IsInt64() || n.Int64() < 0 || n.Int64() > 256 {
		return 0, false
	}
	return int(n.Int64()), true
}

func bigConst(t Term) (*big.Int, bool) {
	n, ok := new(big.Int).SetString(t.S, 10)
	return n, ok
}

func (x *Exec) cmpOrd(op string, l, r Term) Term {
	if x.W.IsSeq(l.Sort) {
		name := "strless"
		x.W.DeclareFun(name, []Sort{l.Sort, r.Sort}, SBool)
		lt := T("("+name+" "+l.S+" "+r.S+")", SBool)
		gt := T("("+name+" "+r.S+" "+l.S+")", SBool)
		switch op {
		case "<":
			return lt
		case ">":
			return gt
		case "<=":
			return Not(gt)
		default:
			return Not(lt)
		}
	}
	return Cmp(op, l, r)
}

func (x *Exec) safetyCheckDiv(env *Env, r Term, rExpr ast.Expr, real bool) {
	zero := IntLit(0)
	if r.Sort == SReal {
		zero = T("0.0", SReal)
	}
	if _, ok := bigConst(r); ok && r.S != "0" {
		return
	}
	if real {
		// floating-point division by zero does not panic
		return
	}
	x.safetyCheck(env, "div", types.ExprString(rExpr), Not(Eq(r, zero)))
}

func (x *Exec) concat(a, b Term, env *Env) Term {
	if x.termMode || x.noFacts > 0 {
		unsupported("concatenation in term mode")
	}
	es := x.W.SeqElem(a.Sort)
	arr := x.W.Fresh("cat", ArraySort(SInt, es))
	la, lb := x.W.SeqLen(a), x.W.SeqLen(b)
	if x.unroll > 0 {
		var cs []Term
		for k := 0; k <= 2*searchMaxLen+2; k++ {
			ki := IntLit(int64(k))
			cs = append(cs, Implies(Cmp("<", ki, la), Eq(Select(arr, ki), x.W.SeqAt(a, ki))))
			cs = append(cs, Implies(And(Cmp(">=", ki, la), Cmp("<", ki, Arith("+", la, lb))), Eq(Select(arr, ki), x.W.SeqAt(b, Arith("-", ki, la)))))
		}
		x.W.AddFact(env.pc, And(cs...))
		r := x.W.MkSeq(a.Sort, arr, IntLit(0), Arith("+", la, lb))
		r.GoT = a.GoT
		return r
	}
	c := x.W.Fresh("cat", a.Sort)
	c.GoT = a.GoT
	x.W.Facts = append(x.W.Facts, Eq(c, x.W.MkSeq(a.Sort, arr, IntLit(0), Arith("+", la, lb))).S)
	// concatenation is a function of its operands (strcat in contracts is this same symbol)
	cat := "strcat_" + sanitize(string(a.Sort))
	x.W.DeclareFun(cat, []Sort{a.Sort, b.Sort}, a.Sort)
	x.W.AddFact(env.pc, Eq(c, T("("+cat+" "+a.S+" "+b.S+")", a.Sort)))
	x.W.nfresh++
	q := fmt.Sprintf("q!%d", x.W.nfresh)
	qi := T(q, SInt)
	// element-level statement (for E-matching): the first len(a) elements are a's, the rest are b's
	body := Implies(And(Cmp("<=", IntLit(0), qi), Cmp("<", qi, Arith("+", la, lb))),
		Eq(x.W.SeqAt(c, qi), Ite(Cmp("<", qi, la), x.W.SeqAt(a, qi), x.W.SeqAt(b, Arith("-", qi, la)))))
	x.W.AddFact(env.pc, T("(forall (("+q+" Int)) (! "+body.S+" :pattern ("+x.W.SeqAt(c, qi).S+")))", SBool))
	// and the two directions keyed on the operands' elements
	f1 := Implies(And(Cmp("<=", IntLit(0), qi), Cmp("<", qi, la)), Eq(x.W.SeqAt(c, qi), x.W.SeqAt(a, qi)))
	x.W.AddFact(env.pc, T("(forall (("+q+" Int)) (! "+f1.S+" :pattern ("+x.W.SeqAt(a, qi).S+")))", SBool))
	f2 := Implies(And(Cmp("<=", IntLit(0), qi), Cmp("<", qi, lb)), Eq(x.W.SeqAt(c, Arith("+", la, qi)), x.W.SeqAt(b, qi)))
	x.W.AddFact(env.pc, T("(forall (("+q+" Int)) (! "+f2.S+" :pattern ("+x.W.SeqAt(b, qi).S+")))", SBool))
	x.catSumFacts(c, a, b)
	return c
}

func (x *Exec) evalIndex(e *ast.IndexExpr, env *Env) Term {
	info := x.cx.info
	xt := info.TypeOf(e.X)
	if xt == nil {
		unsupported("index of untyped")
	}
	base := x.eval(e.X, env)
	rt := info.TypeOf(e)
	switch u := derefType(xt).Underlying().(type) {
	case *types.Slice:
		i := x.eval(e.Index, env)
		x.safetyCheck(env, "index", types.ExprString(e), And(Cmp("<=", IntLit(0), i), Cmp("<", i, x.W.SeqLen(base))))
		r := x.W.SeqAt(base, i)
		r.GoT = rt
		x.typeFactsIf(r, rt, env)
		return r
	case *types.Basic: // string
		i := x.eval(e.Index, env)
		x.safetyCheck(env, "index", types.ExprString(e), And(Cmp("<=", IntLit(0), i), Cmp("<", i, x.W.SeqLen(base))))
		r := x.W.SeqAt(base, i)
		r.GoT = types.Typ[types.Uint8]
		x.typeFactsIf(r, r.GoT, env)
		return r
	case *types.Array:
		i := x.eval(e.Index, env)
		x.safetyCheck(env, "index", types.ExprString(e), And(Cmp("<=", IntLit(0), i), Cmp("<", i, IntLit(u.Len()))))
		r := Select(base, i)
		r.GoT = rt
		x.typeFactsIf(r, rt, env)
		return r
	case *types.Map:
		k := x.evalAs(e.Index, env, u.Key())
		dom, _ := x.W.Field(base, "dom")
		val, _ := x.W.Field(base, "val")
		r := Ite(Select(dom, k), Select(val, k), x.zero(u.Elem()))
		r.GoT = rt
		x.typeFactsIf(r, rt, env)
		return r
	}
	unsupported("index on %s", xt)
	return Term{}
}

func (x *Exec) evalSlice(e *ast.SliceExpr, env *Env) Term {
	info := x.cx.info
	xt := info.TypeOf(e.X)
	base := x.eval(e.X, env)
	if arr, ok := derefType(xt).Underlying().(*types.Array); ok {
		// array[:] -> sequence over the array
		so := x.W.SeqSort(arrayElem(base.Sort))
		base = x.W.MkSeq(so, base, IntLit(0), IntLit(arr.Len()))
	}
	if !x.W.IsSeq(base.Sort) {
		unsupported("slice of %s", xt)
	}
	lo := IntLit(0)
	hi := x.W.SeqLen(base)
	if e.Low != nil {
		lo = x.eval(e.Low, env)
	}
	if e.High != nil {
		hi = x.eval(e.High, env)
	}
	// Go allows hi up to cap for slices; we only accept up to len (stricter, noted as subset rule) for strings exact.
	x.safetyCheck(env, "slice", types.ExprString(e), And(Cmp("<=", IntLit(0), lo), Cmp("<=", lo, hi), Cmp("<=", hi, x.W.SeqLen(base))))
	r := x.W.MkSeq(base.Sort, x.W.SeqBase(base), Arith("+", x.W.SeqOff(base), lo), Arith("-", hi, lo))
	r.GoT = info.TypeOf(e)
	return x.sliceFacts(r, base, lo)
}

// sliceFacts names a slice value and relates its elements to those of the sliced sequence at the level of
// element access: at(S,k) == at(X, lo+k) (true by definition of the encoding; stated for E-matching).
func (x *Exec) sliceFacts(r, base, lo Term) Term {
	if x.termMode || x.noFacts > 0 || x.unroll > 0 {
		return r
	}
	c := x.W.Fresh("slc", r.Sort)
	c.GoT = r.GoT
	x.W.Facts = append(x.W.Facts, Eq(c, r).S)
	x.W.nfresh++
	q := fmt.Sprintf("q!%d", x.W.nfresh)
	qi := T(q, SInt)
	x.W.Facts = append(x.W.Facts, fmt.Sprintf("(forall ((%s Int)) (! (= %s %s) :pattern (%s)))", q, x.W.SeqAt(c, qi).S, x.W.SeqAt(base, Arith("+", lo, qi)).S, x.W.SeqAt(c, qi).S))
	if lo.S == "0" {
		// s[:n] agrees with s on its first n elements: prefix folds coincide
		x.prefixFacts(c, base, x.W.SeqLen(c))
	}
	return c
}

func (x *Exec) evalCompositeLit(e *ast.CompositeLit, env *Env) Term {
	info := x.cx.info
	t := info.TypeOf(e)
	so := x.W.SortOf(t)
	switch u := derefType(t).Underlying().(type) {
	case *types.Struct:
		d := x.W.datas[so]
		if d == nil || strings.HasPrefix(string(so), "U_") {
			return x.freshOrFail(e, t)
		}
		vals := make([]Term, u.NumFields())
		for i := 0; i < u.NumFields(); i++ {
			z := x.zero(u.Field(i).Type())
			if z.Sort != d.Fields[i].Sort {
				z = x.opaqueZero(d.Fields[i].Sort, u.Field(i).Type())
			}
			vals[i] = z
		}
		for i, el := range e.Elts {
			if kv, ok := el.(*ast.KeyValueExpr); ok {
				name := kv.Key.(*ast.Ident).Name
				for j := 0; j < u.NumFields(); j++ {
					if u.Field(j).Name() == name {
						v := x.evalAs(kv.Value, env, u.Field(j).Type())
						if v.Sort != d.Fields[j].Sort {
							v = x.opaqueFrom(v, d.Fields[j].Sort)
						}
						vals[j] = v
					}
				}
			} else {
				v := x.evalAs(el, env, u.Field(i).Type())
				if v.Sort != d.Fields[i].Sort {
					v = x.opaqueFrom(v, d.Fields[i].Sort)
				}
				vals[i] = v
			}
		}
		if u.NumFields() == 0 {
			vals = []Term{True}
		}
		r := x.W.Mk(so, vals...)
		r.GoT = t
		return r
	case *types.Array:
		arr := ConstArray(so, x.zero(u.Elem()))
		idx := int64(0)
		for _, el := range e.Elts {
			var v Term
			if kv, ok := el.(*ast.KeyValueExpr); ok {
				if tv, ok := info.Types[kv.Key]; ok && tv.Value != nil {
					idx, _ = constant.Int64Val(tv.Value)
				}
				v = x.evalElt(kv.Value, env, u.Elem())
			} else {
				v = x.evalElt(el, env, u.Elem())
			}
			arr = Store(arr, IntLit(idx), v)
			idx++
		}
		arr.GoT = t
		return arr
	case *types.Slice:
		es := x.W.SortOf(u.Elem())
		arr := ConstArray(ArraySort(SInt, es), x.zero(u.Elem()))
		idx := int64(0)
		max := int64(0)
		for _, el := range e.Elts {
			var v Term
			if kv, ok := el.(*ast.KeyValueExpr); ok {
				if tv, ok := info.Types[kv.Key]; ok && tv.Value != nil {
					idx, _ = constant.Int64Val(tv.Value)
				}
				v = x.evalElt(kv.Value, env, u.Elem())
			} else {
				v = x.evalElt(el, env, u.Elem())
			}
			arr = Store(arr, IntLit(idx), v)
			idx++
			if idx > max {
				max = idx
			}
		}
		r := x.W.MkSeq(so, arr, IntLit(0), IntLit(max))
		r.GoT = t
		return r
	case *types.Map:
		ks, vs := x.W.SortOf(u.Key()), x.W.SortOf(u.Elem())
		dom := ConstArray(ArraySort(ks, SBool), False)
		val := ConstArray(ArraySort(ks, vs), x.zero(u.Elem()))
		n := 0
		for _, el := range e.Elts {
			kv := el.(*ast.KeyValueExpr)
			k := x.evalAs(kv.Key, env, u.Key())
			v := x.evalElt(kv.Value, env, u.Elem())
			dom = Store(dom, k, True)
			val = Store(val, k, v)
			n++
		}
		r := x.W.Mk(so, dom, val, IntLit(int64(n)))
		r.GoT = t
		return r
	}
	unsupported("composite literal of %s", t)
	return Term{}
}

func (x *Exec) opaqueFrom(v Term, so Sort) Term {
	name := "cast_" + sanitize(string(v.Sort)) + "_to_" + sanitize(string(so))
	x.W.DeclareFun(name, []Sort{v.Sort}, so)
	return T("("+name+" "+v.S+")", so)
}

func (x *Exec) evalElt(el ast.Expr, env *Env, et types.Type) Term {
	if cl, ok := el.(*ast.CompositeLit); ok && cl.Type == nil {
		// elided type: info.TypeOf handles it
		return x.evalCompositeLit(cl, env)
	}
	return x.evalAs(el, env, et)
}
