package vc

import (
	"go/ast"
	"os"
	"go/token"
	"fmt"
	"go/types"
	"strings"
)

// Unit is one verification unit (function under contract or lemma) with its obligations.
type Unit struct {
	Name     string
	Kind     string // func, lemma
	File     string
	Props    []string
	World    *World
	Err      string // non-empty: unit could not be generated (outside subset / attach failure)
	Contract *FuncContract
	Lemma    *Lemma
	Safety   bool
	// entry state symbols (for counterexample extraction)
	Recv   *NamedTerm
	Params []NamedTerm
	Ghosts []NamedTerm
}

// NamedTerm is a program or ghost variable with the symbol that stands for its entry value.
type NamedTerm struct {
	Name string
	Term Term
	GoT  types.Type
	CT   string // contract type text (ghosts)
}

func hasProp(props []string, p string) bool {
	if p == "" {
		return true
	}
	for _, q := range props {
		if q == p {
			return true
		}
	}
	return false
}

// VerifyFunc generates the obligations of one function under contract.
func VerifyFunc(p *Program, fc *FuncContract, prop string) (u *Unit) {
	return verifyFuncMode(p, fc, prop, 0)
}

// verifyFuncMode: unroll == 0 is the proof mode (invariants); unroll > 0 is the counterexample-search mode.
func verifyFuncMode(p *Program, fc *FuncContract, prop string, unroll int) (u *Unit) {
	u = &Unit{Name: fc.Key(), Kind: "func", File: relFile(fc.File), Props: fc.Props, Contract: fc}
	w := NewWorld()
	u.World = w
	fi := p.Funcs[fc.Key()]
	if fi == nil {
		u.Err = "attach: function " + fc.Key() + " not found in the repository"
		return u
	}
	if fi.Decl.Body == nil {
		u.Err = "attach: function has no body"
		return u
	}
	x := NewExec(p, w, prop+"/"+fc.Key())
	x.safety = !fc.Flags["nosafety"] || os.Getenv("GOCV_FORCE_SAFETY") != ""
	x.unroll = unroll
	u.Safety = x.safety
	defer func() {
		if r := recover(); r != nil {
			if us, ok := r.(Unsupported); ok {
				u.Err = "outside subset: " + us.Msg
				return
			}
			panic(r)
		}
	}()
	cx := x.newCtx(fi, fc)
	x.cx = cx
	frameObligations(p, x, fi, fc)
	if needsTermination(fc) && len(fc.Measure) == 0 && unroll == 0 && !fc.Flags["frameonly"] && p.OnDirectCycle(fi) {
		// C02 units: a recursive function without a measure is an undischarged termination obligation
		w.Oblige(x.oblName("recursion/variant:missing", ""), "variant", True, False)
	}
	// loops named in the contract must exist
	for ord := range fc.Loops {
		if ord >= len(cx.loopOrd) {
			u.Err = fmt.Sprintf("attach: contract names loop %d but the function has %d loops", ord, len(cx.loopOrd))
			return u
		}
	}
	sig := fi.Obj.Type().(*types.Signature)
	env := &Env{vars: map[types.Object]Term{}, pc: True}
	if rv := sig.Recv(); rv != nil {
		env.vars[rv] = x.fresh(rv.Name(), rv.Type())
		u.Recv = &NamedTerm{Name: rv.Name(), Term: env.vars[rv], GoT: rv.Type()}
	}
	for i := 0; i < sig.Params().Len(); i++ {
		pv := sig.Params().At(i)
		env.vars[pv] = x.fresh(pv.Name(), pv.Type())
		u.Params = append(u.Params, NamedTerm{Name: pv.Name(), Term: env.vars[pv], GoT: pv.Type()})
	}
	for _, rv := range cx.results {
		env.vars[rv] = x.zero(rv.Type())
	}
	for _, g := range fc.Ghosts {
		cx.ghosts[g.Name] = x.freshOfTypeName(g.Name, g.Type, fi.Pkg.Name)
		gt := cx.ghosts[g.Name]
		u.Ghosts = append(u.Ghosts, NamedTerm{Name: g.Name, Term: gt, GoT: x.resolveTypeName(g.Type, fi.Pkg.Name).goT, CT: g.Type})
	}
	for _, c := range fc.Counters {
		cv := types.NewVar(token.NoPos, fi.Pkg.Types, "$count_"+c.Name, types.Typ[types.Int])
		cx.counters = append(cx.counters, cv)
		z := IntLit(0)
		z.GoT = types.Typ[types.Int]
		env.vars[cv] = z
	}
	// vacuity: a call-site clause that matches no call in the body states nothing - unless it is a prohibition
	// (`requires false`), which then holds because the callee is not called at all
	if x.unroll == 0 {
		for _, cs := range fc.Callsite {
			if cs.Callee == "make" {
				continue
			}
			n := 0
			ast.Inspect(fi.Decl.Body, func(nd ast.Node) bool {
				if call, ok := nd.(*ast.CallExpr); ok {
					if fn := x.calleeOf(call); fn != nil && (p.KeyOf(fn) == cs.Callee || fn.Name() == cs.Callee) {
						n++
					}
				}
				return true
			})
			if n > 0 {
				continue
			}
			if t := strings.TrimSpace(cs.Clause.Text); t == "false" || strings.HasSuffix(t, ": false") {
				o := w.Oblige(x.oblName("callsite:"+cs.Callee+"/never-called", ""), "frame", True, True)
				o.Preset, o.Solver, o.Result = true, "callsite-scan", "unsat"
				continue
			}
			unsupported("call-site clause on %s matches no call in %s", cs.Callee, fi.Key)
		}
	}
	cx.oldEnv = env.clone()
	// requires
	sc := x.scopeAt(env, fi.Decl.Body.Lbrace+1)
	for _, c := range fc.Lets {
		v := x.named(c.Label, sc.Eval(c.Expr))
		cx.ghosts[c.Label] = v
		sc.locals[c.Label] = v
	}
	for _, c := range fc.Requires {
		x.assume(env, sc.EvalBool(c.Expr))
	}
	for _, m := range fc.Measure {
		cx.measure0 = append(cx.measure0, sc.Eval(m))
	}
	// vacuity: requires satisfiable
	o := w.Oblige(x.oblName("cover:requires", ""), "cover", env.pc, False)
	o.Expect = "sat"

	out := x.execBlock(fi.Decl.Body.List, env)
	if out != nil {
		var vals []Term
		for _, rv := range cx.results {
			vals = append(vals, out.vars[rv])
		}
		cx.rets = append(cx.rets, retRec{env: out, vals: vals})
	}
	if len(cx.rets) == 0 {
		u.Err = "function has no reachable return"
		return u
	}
	// merge returns
	var envs []*Env
	for _, r := range cx.rets {
		envs = append(envs, r.env)
	}
	exit := x.merge(envs)
	for i := len(cx.defers) - 1; i >= 0; i-- {
		d := cx.defers[i]
		if d.call != nil {
			on := x.branch(exit, d.pc)
			off := x.branch(exit, Not(d.pc))
			x.evalCall(d.call, on)
			exit = x.merge([]*Env{on, off})
			continue
		}
		if m := x.eval(d.expr, exit); w.IsMap(m.Sort) {
			dom, _ := w.Field(m, "dom")
			val, _ := w.Field(m, "val")
			card, _ := w.Field(m, "card")
			nv := w.Mk(m.Sort, Store(dom, d.key, False), val, Ite(Select(dom, d.key), Arith("-", card, IntLit(1)), card))
			r := Ite(d.pc, nv, m)
			r.GoT = m.GoT
			x.quiet++
			x.assign(d.expr, r, exit)
			x.quiet--
		}
	}
	names := contractResultNames(fi, fc)
	post := x.scopeAt(exit, fi.Decl.Body.Rbrace)
	for i, rv := range cx.results {
		so := w.SortOf(rv.Type())
		var val Term
		if len(cx.rets) == 1 {
			val = x.coerce(cx.rets[0].vals[i], so)
		} else {
			val = w.Fresh("result", so)
			for _, r := range cx.rets {
				w.Facts = append(w.Facts, Implies(r.env.pc, Eq(val, x.coerce(r.vals[i], so))).S)
			}
		}
		val.GoT = rv.Type()
		if i < len(names) && names[i] != "" {
			post.locals[names[i]] = val
		}
		post.locals[fmt.Sprintf("$ret%d", i)] = val
	}
	// vacuity: an atreturn clause that applies to no return statement of the body states nothing
	for i, c := range fc.AtReturn {
		if !cx.atretApplied[i] && x.unroll == 0 {
			unsupported("atreturn clause %s applies to no return statement (ordinal %d; without ordinal: returns whose last result is literally nil)", clauseName(c, i), c.Ordinal)
		}
	}
	// vacuity: some return reachable
	o = w.Oblige(x.oblName("cover:exit", ""), "cover", exit.pc, False)
	o.Expect = "sat"
	for i, c := range fc.Ensures {
		x.assert(exit, "post:"+clauseName(c, i), "", post.EvalBool(c.Expr))
	}
	return u
}

// VerifyLemma generates the obligations of a lemma (no body: requires ==> ensures).
func VerifyLemma(p *Program, l *Lemma, prop string) (u *Unit) {
	u = &Unit{Name: "lemma:" + l.Name, Kind: "lemma", File: relFile(l.File), Props: l.Props, Lemma: l}
	w := NewWorld()
	u.World = w
	x := NewExec(p, w, prop+"/lemma:"+l.Name)
	defer func() {
		if r := recover(); r != nil {
			if us, ok := r.(Unsupported); ok {
				u.Err = "outside subset: " + us.Msg
				return
			}
			panic(r)
		}
	}()
	x.cx = &fctx{ghosts: map[string]Term{}, closures: nil}
	sc := &Scope{x: x, pkg: l.Pkg, locals: map[string]Term{}}
	env := &Env{vars: map[types.Object]Term{}, pc: True}
	for _, prm := range l.Params {
		tr := x.resolveTypeName(prm.Type, l.Pkg)
		v := w.Fresh(prm.Name, tr.sort)
		v.GoT = tr.goT
		if tr.goT != nil {
			x.typeFacts(v, tr.goT, True)
		}
		sc.locals[prm.Name] = v
	}
	for _, c := range l.Requires {
		x.assume(env, sc.EvalBool(c.Expr))
	}
	o := w.Oblige(x.oblName("cover:requires", ""), "cover", env.pc, False)
	o.Expect = "sat"
	for i, c := range l.Ensures {
		x.assert(env, "ensures:"+clauseName(c, i), "", sc.EvalBool(c.Expr))
	}
	return u
}

// Units generates all units for a property.
func Units(p *Program, prop string) []*Unit {
	var us []*Unit
	for _, key := range p.Contracts.Order {
		fc := p.Contracts.Funcs[key]
		if !hasProp(fc.Props, prop) {
			continue
		}
		if fc.Flags["trusted"] {
			continue
		}
		if fc.Flags["inline"] && len(fc.Ensures) == 0 && len(fc.Requires) == 0 {
			continue // marker only: callers inline the body
		}
		if fc.Flags["frameonly"] {
			us = append(us, VerifyFrameOnly(p, fc, prop))
			continue
		}
		if fc.Flags["callsites"] {
			us = append(us, VerifyCallsites(p, fc, prop))
			continue
		}
		us = append(us, VerifyFunc(p, fc, prop))
		if fc.Flags["robust"] && len(fc.Ghosts) > 0 {
			ru := VerifyFunc(p, fc.RobustView(), prop)
			ru.Name += " [robust]"
			for _, o := range ru.World.Obls {
				o.Name = strings.Replace(o.Name, "/"+fc.Key()+"/", "/"+fc.Key()+"[robust]/", 1)
			}
			us = append(us, ru)
		}
	}
	for _, l := range p.Contracts.Lemmas {
		if !hasProp(l.Props, prop) {
			continue
		}
		us = append(us, VerifyLemma(p, l, prop))
	}
	if prop == "C03" {
		us = append(us, FrameUnit(p, prop))
	}
	if prop == "C10" {
		us = append(us, HandleUnit(p, prop))
	}
	return us
}

// SMT renders the query of one obligation.
func (o *Obligation) SMT(models bool) string { return o.SMTMode(models, false) }

func (o *Obligation) SMTMode(models, macroAt bool) string {
	var b strings.Builder
	w := o.World
	if models {
		b.WriteString("(set-option :produce-models true)\n")
	}
	b.WriteString(w.Preamble(macroAt))
	for i := 0; i < o.FactsN && i < len(w.Facts); i++ {
		b.WriteString("(assert " + w.Facts[i] + ")\n")
	}
	b.WriteString("(assert " + o.PC + ")\n")
	if o.Goal != "false" {
		b.WriteString("(assert (not " + o.Goal + "))\n")
	}
	b.WriteString("(check-sat)\n")
	return b.String()
}

// frameObligations emits the obligations decided by the engine's static frame analyses.
func frameObligations(p *Program, x *Exec, fi *FuncInfo, fc *FuncContract) {
	w := x.W
	if fc.Flags["pure"] || fc.Flags["readonly"] {
		o := w.Oblige(x.oblName("frame:readonly", ""), "frame", True, True)
		o.Preset = true
		o.Solver = "frame-analysis"
		if p.IsReadonly(fi) {
			o.Result = "unsat"
		} else {
			o.Result = "sat"
			o.Output = "the body (or a callee) may write through the receiver or a pointer/map parameter"
		}
	}
	if fc.Flags["releases"] {
		o := w.Oblige(x.oblName("typestate:opened-handle-closed-on-every-exit", ""), "frame", True, True)
		o.Preset, o.Solver, o.Result = true, "typestate-rule", "unsat"
		if sites := OpenWithoutDeferredClose(fi, "ensureReader", "Close"); len(sites) > 0 {
			o.Result = "sat"
			o.Output = "successful ensureReader() not immediately followed by defer Close(): " + strings.Join(sites, ", ")
		}
	}
	if fc.Flags["recvreadonly"] {
		o := w.Oblige(x.oblName("frame:recvreadonly", ""), "frame", True, True)
		o.Preset, o.Solver, o.Result = true, "frame-analysis", "unsat"
		if !p.IsRecvReadonly(fi) {
			o.Result = "sat"
			o.Output = "the body (or a callee) may write through the receiver"
		}
	}
	if fc.Flags["noalias"] {
		o := w.Oblige(x.oblName("frame:noalias", ""), "frame", True, True)
		o.Preset, o.Solver, o.Result = true, "alias-rules", "unsat"
		if sites := AliasReuseSites(fi); len(sites) > 0 {
			o.Result = "sat"
			o.Output = "slice value shares a live backing array that is appended to later: " + strings.Join(sites, "; ")
		}
	}
	for _, f := range fc.Fresh {
		o := w.Oblige(x.oblName("frame:fresh", f), "frame", True, True)
		o.Preset, o.Solver, o.Result = true, "alias-rules", "unsat"
		if sites := StaleFieldStores(fi, f); len(sites) > 0 {
			o.Result = "sat"
			o.Output = "value stored into field " + f + " is not a fresh slice: " + strings.Join(sites, "; ")
		}
	}
	for _, f := range fc.MustRead {
		o := w.Oblige(x.oblName("frame:mustread", f), "frame", True, True)
		o.Preset = true
		o.Solver = "frame-analysis"
		if p.ReadsField(fi, f, map[*FuncInfo]bool{}) {
			o.Result = "unsat"
		} else {
			o.Result = "sat"
			o.Output = "neither the function nor any callee on the same receiver reads field " + f + ": the result cannot depend on it"
		}
	}
	for _, f := range fc.NoRead {
		o := w.Oblige(x.oblName("frame:noread", f), "frame", True, True)
		o.Preset = true
		o.Solver = "frame-analysis"
		if p.ReadsField(fi, f, map[*FuncInfo]bool{}) {
			o.Result = "sat"
			o.Output = "the function (or a callee on the same receiver) reads field " + f
		} else {
			o.Result = "unsat"
		}
	}
}

// VerifyFrameOnly: a unit whose contract consists only of frame clauses (no symbolic execution of the body).
func VerifyFrameOnly(p *Program, fc *FuncContract, prop string) *Unit {
	u := &Unit{Name: fc.Key(), Kind: "func", File: relFile(fc.File), Props: fc.Props, Contract: fc}
	w := NewWorld()
	u.World = w
	fi := p.Funcs[fc.Key()]
	if fi == nil || fi.Decl.Body == nil {
		u.Err = "attach: function " + fc.Key() + " not found in the repository"
		return u
	}
	x := NewExec(p, w, prop+"/"+fc.Key())
	frameObligations(p, x, fi, fc)
	return u
}
