package vc

import (
	"fmt"
	"go/ast"
	"go/types"
	"path/filepath"
	"sort"
	"strings"

	"golang.org/x/tools/go/packages"
)

type FuncInfo struct {
	Pkg  *packages.Package
	Decl *ast.FuncDecl
	Obj  *types.Func
	Key  string
	File string
}

type Program struct {
	Pkgs      []*packages.Package
	ByName    map[string]*packages.Package
	Funcs     map[string]*FuncInfo
	ByObj     map[*types.Func]*FuncInfo
	Contracts *Contracts
	ModPath   string
	roMemo    map[*FuncInfo]int
	rroMemo   map[*FuncInfo]int
	cg        map[string][]string
	dcg map[string][]string
	fw  *fieldWriters
	byMethodName map[string][]string
}

// Load loads all packages of the module rooted at dir with build tag verif.
func Load(dir string) (*Program, error) {
	cfg := &packages.Config{
		Mode: packages.NeedName | packages.NeedSyntax | packages.NeedTypes | packages.NeedTypesInfo |
			packages.NeedFiles | packages.NeedImports | packages.NeedDeps | packages.NeedModule | packages.NeedCompiledGoFiles,
		Dir:        dir,
		BuildFlags: []string{"-tags=verif"},
		Env:        append(osEnviron(), "GOFLAGS=-mod=mod", "GOPROXY=off", "GOSUMDB=off", "GOTOOLCHAIN=local"),
	}
	pkgs, err := packages.Load(cfg, "./...")
	if err != nil {
		return nil, err
	}
	p := &Program{ByName: map[string]*packages.Package{}, Funcs: map[string]*FuncInfo{}, ByObj: map[*types.Func]*FuncInfo{}, Contracts: NewContracts()}
	var errs []string
	for _, pkg := range pkgs {
		for _, e := range pkg.Errors {
			errs = append(errs, e.Error())
		}
	}
	if len(errs) > 0 {
		return nil, fmt.Errorf("repository does not type-check:\n%s", strings.Join(errs, "\n"))
	}
	sort.Slice(pkgs, func(i, j int) bool { return pkgs[i].PkgPath < pkgs[j].PkgPath })
	for _, pkg := range pkgs {
		if pkg.Module != nil && p.ModPath == "" {
			p.ModPath = pkg.Module.Path
		}
		p.Pkgs = append(p.Pkgs, pkg)
		name := pkg.Name
		if _, dup := p.ByName[name]; dup {
			name = pkg.PkgPath
		}
		p.ByName[name] = pkg
		for i, f := range pkg.Syntax {
			fname := ""
			if i < len(pkg.CompiledGoFiles) {
				fname = pkg.CompiledGoFiles[i]
			}
			for _, d := range f.Decls {
				fd, ok := d.(*ast.FuncDecl)
				if !ok {
					continue
				}
				obj, _ := pkg.TypesInfo.Defs[fd.Name].(*types.Func)
				if obj == nil {
					continue
				}
				key := FuncKey(pkg.Name, fd)
				fi := &FuncInfo{Pkg: pkg, Decl: fd, Obj: obj, Key: key, File: fname}
				p.Funcs[key] = fi
				p.ByObj[obj] = fi
			}
		}
		for _, gf := range pkg.CompiledGoFiles {
			if strings.HasSuffix(gf, "_verif.go") {
				if err := p.Contracts.ParseFile(gf, pkg.Name); err != nil {
					return nil, err
				}
			}
		}
	}
	return p, nil
}

// LoadExtraContracts parses a contract file that lives outside the repository
// (used for cross-package lemmas kept in /verif); pkgName gives the resolution scope.
func (p *Program) LoadExtraContracts(path, pkgName string) error {
	return p.Contracts.ParseFile(path, pkgName)
}

func FuncKey(pkgName string, fd *ast.FuncDecl) string {
	if fd.Recv != nil && len(fd.Recv.List) == 1 {
		t := fd.Recv.List[0].Type
		star := ""
		if s, ok := t.(*ast.StarExpr); ok {
			star = "*"
			t = s.X
		}
		if ix, ok := t.(*ast.IndexExpr); ok {
			t = ix.X
		}
		if id, ok := t.(*ast.Ident); ok {
			return pkgName + ".(" + star + id.Name + ")." + fd.Name.Name
		}
	}
	return pkgName + "." + fd.Name.Name
}

func (p *Program) KeyOf(f *types.Func) string {
	if fi, ok := p.ByObj[f]; ok {
		return fi.Key
	}
	// library function: pkgpath.Name or pkgpath.(T).Name
	sig, _ := f.Type().(*types.Signature)
	pkg := ""
	if f.Pkg() != nil {
		pkg = f.Pkg().Path()
	}
	if sig != nil && sig.Recv() != nil {
		rt := sig.Recv().Type()
		star := ""
		if pt, ok := rt.(*types.Pointer); ok {
			rt = pt.Elem()
			star = "*"
		}
		name := rt.String()
		if n, ok := rt.(*types.Named); ok {
			name = n.Obj().Name()
		}
		return pkg + ".(" + star + name + ")." + f.Name()
	}
	return pkg + "." + f.Name()
}

func relFile(p string) string {
	if i := strings.Index(p, "/repo/"); i >= 0 {
		return p[i+len("/repo/"):]
	}
	return filepath.Base(p)
}
