package vc

import (
	"bytes"
	"context"
	"fmt"
	"os"
	"os/exec"
	"path/filepath"
	"runtime"
	"strings"
	"sync"
	"time"
)

type SolverCfg struct {
	WorkDir  string
	Timeout  time.Duration // per obligation per solver
	AllAgree bool          // thorough: run every solver, any sat refutes
}

type solverSpec struct {
	name string
	argv func(file string, secs int) []string
}

var solvers = []solverSpec{
	{"z3-new", func(f string, s int) []string { return []string{"z3-new", fmt.Sprintf("-T:%d", s), f} }},
	{"z3-new/ematch", func(f string, s int) []string {
		return []string{"z3-new", fmt.Sprintf("-T:%d", s), "smt.auto_config=false", "smt.mbqi=false", f}
	}},
	{"cvc5", func(f string, s int) []string {
		return []string{"cvc5", "--lang=smt2", fmt.Sprintf("--tlimit=%d", s*1000), f}
	}},
	{"z3", func(f string, s int) []string { return []string{"z3", fmt.Sprintf("-T:%d", s), f} }},
}

func runSolver(sp solverSpec, file string, timeout time.Duration) (string, string, float64) {
	secs := int(timeout.Seconds())
	if secs < 1 {
		secs = 1
	}
	argv := sp.argv(file, secs)
	ctx, cancel := context.WithTimeout(context.Background(), timeout+2*time.Second)
	defer cancel()
	cmd := exec.CommandContext(ctx, argv[0], argv[1:]...)
	var out bytes.Buffer
	cmd.Stdout = &out
	cmd.Stderr = &out
	t0 := time.Now()
	_ = cmd.Run()
	el := time.Since(t0).Seconds()
	text := out.String()
	first := ""
	for _, l := range strings.Split(text, "\n") {
		l = strings.TrimSpace(l)
		if l == "sat" || l == "unsat" || l == "unknown" || l == "timeout" {
			first = l
			break
		}
	}
	if first == "" && strings.Contains(text, "interrupted by timeout") {
		first = "timeout"
	}
	if first == "" || strings.Contains(text, "(error ") {
		if ctx.Err() != nil {
			first = "timeout"
		} else {
			first = "error"
		}
	}
	return first, text, el
}

// Discharge runs all obligations (in parallel) and fills in their results.
func Discharge(obls []*Obligation, cfg SolverCfg) {
	os.MkdirAll(cfg.WorkDir, 0o755)
	type job struct {
		o *Obligation
		i int
	}
	jobs := make(chan job)
	var wg sync.WaitGroup
	n := runtime.NumCPU() / 2
	if n > 8 {
		n = 8
	}
	if n < 2 {
		n = 2
	}
	for k := 0; k < n; k++ {
		wg.Add(1)
		go func() {
			defer wg.Done()
			for j := range jobs {
				dischargeOne(j.o, j.i, cfg)
			}
		}()
	}
	for i, o := range obls {
		jobs <- job{o, i}
	}
	close(jobs)
	wg.Wait()
}

func dischargeOne(o *Obligation, idx int, cfg SolverCfg) {
	if o.Preset {
		return
	}
	file := filepath.Join(cfg.WorkDir, fmt.Sprintf("o%04d.smt2", idx))
	text := o.SMT(false)
	if len(text) > 4<<20 {
		o.Result, o.Solver, o.Output = "toolarge", "-", fmt.Sprintf("query of %d bytes exceeds the 4 MB cap", len(text))
		return
	}
	os.WriteFile(file, []byte("; "+o.Name+"\n"+text), 0o644)
	t0 := time.Now()
	defer func() { o.Seconds = time.Since(t0).Seconds() }()
	if o.Expect == "sat" {
		// cover query: only "unsat" matters (vacuity); short budget
		res, out, _ := runSolver(solvers[0], file, 3*time.Second)
		o.Result, o.Solver, o.Output = res, solvers[0].name, trimOut(out)
		return
	}
	// stage 1: z3-new alone with a short budget
	short := 6 * time.Second
	if cfg.Timeout < short {
		short = cfg.Timeout
	}
	type r1 struct {
		res, out, name string
	}
	c1 := make(chan r1, 3)
	for _, sp := range solvers[:3] {
		sp := sp
		go func() {
			a, b, _ := runSolver(sp, file, short)
			c1 <- r1{a, b, sp.name}
		}()
	}
	res, out := "unknown", ""
	for k := 0; k < 3; k++ {
		g := <-c1
		if g.res == "unsat" && !cfg.AllAgree {
			o.Result, o.Solver, o.Output = g.res, g.name, ""
			return
		}
		if g.res == "sat" {
			o.Result, o.Solver, o.Output = g.res, g.name, trimOut(g.out)
			return
		}
		if g.res == "unsat" {
			res, out = g.res, g.out
		}
	}
	_ = out
	if o.KnownFailing && res != "unsat" {
		o.Result, o.Solver, o.Output = "unknown", "all", "known finding: only the short first stage was tried"
		return
	}
	// stage 2: race all solvers with the full budget
	type r struct {
		res, out, name string
	}
	ch := make(chan r, len(solvers))
	for _, sp := range solvers {
		sp := sp
		go func() {
			budget := cfg.Timeout
			if cfg.AllAgree && res == "unsat" {
				budget = 8 * time.Second // already discharged once: the others are only given a chance to disagree
			}
			a, b, _ := runSolver(sp, file, budget)
			ch <- r{a, b, sp.name}
		}()
	}
	var got []r
	final := r{res: "unknown", name: "all"}
	if res == "unsat" {
		final = r{res: "unsat", name: solvers[0].name}
	}
	for range solvers {
		x := <-ch
		got = append(got, x)
		if x.res == "sat" {
			final = x
			if !cfg.AllAgree {
				break
			}
		}
		if x.res == "unsat" && final.res != "sat" {
			final = x
			if !cfg.AllAgree {
				break
			}
		}
	}
	o.Result, o.Solver = final.res, final.name
	if final.res != "unsat" {
		var all []string
		for _, g := range got {
			all = append(all, g.name+": "+g.res+" "+trimOut(g.out))
		}
		o.Output = strings.Join(all, " | ")
		if final.res != "sat" {
			// classify: timeout if any solver timed out
			for _, g := range got {
				if g.res == "timeout" && o.Result != "error" {
					o.Result = "timeout"
				}
				if g.res == "error" {
					o.Result = "error"
				}
			}
		}
	}
}

func trimOut(s string) string {
	s = strings.TrimSpace(s)
	if len(s) > 600 {
		s = s[:600] + "…"
	}
	return s
}

// SolveWithModel re-runs an obligation asking for values of the given terms.
func SolveWithModel(o *Obligation, terms []string, workDir string, timeout time.Duration) (string, map[string]string, string) {
	var b strings.Builder
	b.WriteString(o.SMT(true))
	if len(terms) > 0 {
		b.WriteString("(get-value (" + strings.Join(terms, " ") + "))\n")
	}
	file := filepath.Join(workDir, "model_"+sanitize(o.Name)+".smt2")
	if len(file) > 200 {
		file = file[:200] + ".smt2"
	}
	os.WriteFile(file, []byte(b.String()), 0o644)
	for _, sp := range solvers {
		res, out, _ := runSolver(sp, file, timeout)
		if res == "sat" {
			return res, parseGetValue(out), out
		}
		if res == "unsat" {
			return res, nil, out
		}
	}
	return "unknown", nil, ""
}

// parseGetValue parses ((term value) (term value) ...) output into a map term-text -> value-text.
func parseGetValue(out string) map[string]string {
	m := map[string]string{}
	i := strings.Index(out, "((")
	if i < 0 {
		return m
	}
	s := out[i+1:]
	// iterate over top-level pairs
	depth := 0
	start := -1
	for k := 0; k < len(s); k++ {
		switch s[k] {
		case '(':
			if depth == 0 {
				start = k
			}
			depth++
		case ')':
			depth--
			if depth == 0 && start >= 0 {
				pair := s[start+1 : k]
				// split into first sexpr and rest
				t, v := splitFirstSexpr(pair)
				m[strings.TrimSpace(t)] = strings.TrimSpace(v)
				start = -1
			}
			if depth < 0 {
				return m
			}
		}
	}
	return m
}

func splitFirstSexpr(s string) (string, string) {
	s = strings.TrimSpace(s)
	if s == "" {
		return "", ""
	}
	if s[0] != '(' {
		k := strings.IndexAny(s, " \n\t")
		if k < 0 {
			return s, ""
		}
		return s[:k], s[k+1:]
	}
	depth := 0
	for i := 0; i < len(s); i++ {
		switch s[i] {
		case '(':
			depth++
		case ')':
			depth--
			if depth == 0 {
				return s[:i+1], s[i+1:]
			}
		}
	}
	return s, ""
}
