// Package vc: verification-condition generator for a subset of Go.
package vc

import (
	"fmt"
	"go/constant"
	"go/types"
	"math/big"
	"sort"
	"strings"
)

// Sort is SMT-LIB sort text.
type Sort string

const (
	SInt  Sort = "Int"
	SBool Sort = "Bool"
	SReal Sort = "Real"
)

// Term is an SMT term with its sort and (optionally) the Go type it models.
type Term struct {
	S    string
	Sort Sort
	GoT  types.Type
}

func (t Term) String() string { return t.S }

func T(s string, so Sort) Term { return Term{S: s, Sort: so} }

var (
	True  = Term{S: "true", Sort: SBool}
	False = Term{S: "false", Sort: SBool}
)

func IntLit(n int64) Term {
	if n < 0 {
		return Term{S: fmt.Sprintf("(- %d)", -n), Sort: SInt}
	}
	return Term{S: fmt.Sprintf("%d", n), Sort: SInt}
}

func BigIntLit(n *big.Int) Term {
	if n.Sign() < 0 {
		return Term{S: "(- " + new(big.Int).Neg(n).String() + ")", Sort: SInt}
	}
	return Term{S: n.String(), Sort: SInt}
}

func RatLit(r *big.Rat) Term {
	neg := r.Sign() < 0
	a := new(big.Rat).Abs(r)
	var s string
	if a.IsInt() {
		s = a.Num().String() + ".0"
	} else {
		s = "(/ " + a.Num().String() + ".0 " + a.Denom().String() + ".0)"
	}
	if neg {
		s = "(- " + s + ")"
	}
	return Term{S: s, Sort: SReal}
}

func app(op string, args ...Term) string {
	var b strings.Builder
	b.WriteString("(")
	b.WriteString(op)
	for _, a := range args {
		b.WriteString(" ")
		b.WriteString(a.S)
	}
	b.WriteString(")")
	return b.String()
}

func And(ts ...Term) Term {
	var xs []Term
	for _, t := range ts {
		if t.S == "true" {
			continue
		}
		if t.S == "false" {
			return False
		}
		xs = append(xs, t)
	}
	if len(xs) == 0 {
		return True
	}
	if len(xs) == 1 {
		return xs[0]
	}
	return Term{S: app("and", xs...), Sort: SBool}
}

func Or(ts ...Term) Term {
	var xs []Term
	for _, t := range ts {
		if t.S == "false" {
			continue
		}
		if t.S == "true" {
			return True
		}
		xs = append(xs, t)
	}
	if len(xs) == 0 {
		return False
	}
	if len(xs) == 1 {
		return xs[0]
	}
	return Term{S: app("or", xs...), Sort: SBool}
}

func Not(t Term) Term {
	if t.S == "true" {
		return False
	}
	if t.S == "false" {
		return True
	}
	return Term{S: app("not", t), Sort: SBool}
}

func Implies(a, b Term) Term {
	if a.S == "true" {
		return b
	}
	if a.S == "false" || b.S == "true" {
		return True
	}
	return Term{S: app("=>", a, b), Sort: SBool}
}

func Eq(a, b Term) Term {
	if a.S == b.S {
		return True
	}
	a, b = coerceNum(a, b)
	return Term{S: app("=", a, b), Sort: SBool}
}

func Ite(c, a, b Term) Term {
	if c.S == "true" {
		return a
	}
	if c.S == "false" {
		return b
	}
	if a.S == b.S {
		return a
	}
	a, b = coerceNum(a, b)
	return Term{S: app("ite", c, a, b), Sort: a.Sort, GoT: a.GoT}
}

// coerceNum lifts Int to Real when mixed.
func coerceNum(a, b Term) (Term, Term) {
	if a.Sort == SInt && b.Sort == SReal {
		a = ToReal(a)
	} else if a.Sort == SReal && b.Sort == SInt {
		b = ToReal(b)
	}
	return a, b
}

func ToReal(a Term) Term {
	if a.Sort == SReal {
		return a
	}
	return Term{S: app("to_real", a), Sort: SReal}
}

func Arith(op string, a, b Term) Term {
	a, b = coerceNum(a, b)
	return Term{S: app(op, a, b), Sort: a.Sort}
}

func Cmp(op string, a, b Term) Term {
	a, b = coerceNum(a, b)
	return Term{S: app(op, a, b), Sort: SBool}
}

func Select(arr, idx Term) Term {
	return Term{S: app("select", arr, idx), Sort: arrayElem(arr.Sort)}
}

func Store(arr, idx, v Term) Term {
	return Term{S: app("store", arr, idx, v), Sort: arr.Sort, GoT: arr.GoT}
}

func ArraySort(k, v Sort) Sort { return Sort("(Array " + string(k) + " " + string(v) + ")") }

// arrayElem parses "(Array K V)" and returns V.
func arrayElem(s Sort) Sort {
	_, v := arrayKV(s)
	return v
}

func arrayKV(s Sort) (Sort, Sort) {
	str := string(s)
	if !strings.HasPrefix(str, "(Array ") {
		return "", ""
	}
	body := str[len("(Array ") : len(str)-1]
	// split first sexpr
	depth := 0
	for i, c := range body {
		switch c {
		case '(':
			depth++
		case ')':
			depth--
		case ' ':
			if depth == 0 {
				return Sort(body[:i]), Sort(body[i+1:])
			}
		}
	}
	return "", ""
}

func isArraySort(s Sort) bool { return strings.HasPrefix(string(s), "(Array ") }

func sanitize(s string) string {
	var b strings.Builder
	for _, c := range s {
		switch {
		case c >= 'a' && c <= 'z', c >= 'A' && c <= 'Z', c >= '0' && c <= '9', c == '_':
			b.WriteRune(c)
		case c == ' ' || c == '(' || c == ')':
		default:
			b.WriteString("_")
		}
	}
	return b.String()
}

// ---------------------------------------------------------------------
// World: sorts, declarations, facts, obligations for one verification unit.

type DataDecl struct {
	Name   string
	Ctor   string
	Fields []DataField
	GoT    types.Type
}

type DataField struct {
	Name string // Go field name (or base/off/len)
	Sel  string // selector symbol
	Sort Sort
	GoT  types.Type
}

type World struct {
	closureBound map[string]bool // fv_ symbols defined by a closure literal in this unit
	dynTests map[string][]string // per interface sort: declared concrete dynamic-type tests (mutually exclusive)
	decls     []string             // in order: declare-datatypes, declare-sort
	datas     map[Sort]*DataDecl   // by sort name
	structOf  map[string]Sort      // types.Type string -> sort
	inprog    map[string]bool      // struct types under construction
	consts    []string             // declare-const / declare-fun lines
	constSeen map[string]bool
	defs      []string // define-fun lines (spec functions), in order
	defSeen   map[string]bool
	nfresh    int
	carrs     map[string]Term
	pendingPrefix [][3]Term
	pendingPerm   [][3]Term
	pendingSum    [][3]Term
	pendingCat    [][3]Term // c = a ++ b (sum folds distribute)
	pendingZeroMask []Term  // all-false []bool values (make)
	zeroMaskDone  map[string]bool
	ModPath   string
	seqSorts  []Sort
	Facts     []string
	Obls      []*Obligation
	Abstr     map[string]int // abstraction notes -> count
	Inlined   map[string]int
	UsedSpecs map[string]bool
}

func NewWorld() *World {
	return &World{datas: map[Sort]*DataDecl{}, structOf: map[string]Sort{}, inprog: map[string]bool{},
		constSeen: map[string]bool{}, defSeen: map[string]bool{}, Abstr: map[string]int{}, Inlined: map[string]int{}, UsedSpecs: map[string]bool{}}
}

type Obligation struct {
	Name   string
	Kind   string
	FactsN int
	PC     string
	Goal   string
	Expect string // "unsat" (default, proof) or "sat" (cover: must NOT be unsat)
	KnownFailing bool // listed in known_findings.json: only the short first stage is tried
	Note   string
	Alt    string // obligations sharing Alt are alternatives: one discharged alternative suffices
	Preset bool // decided by a static analysis of the engine, not by a solver
	World  *World
	// results
	Result  string // unsat/sat/unknown/timeout
	Solver  string
	Seconds float64
	Model   string
	Output  string
}

func (w *World) Fresh(hint string, so Sort) Term {
	w.nfresh++
	name := fmt.Sprintf("%s!%d", sanitize(hint), w.nfresh)
	w.consts = append(w.consts, fmt.Sprintf("(declare-const %s %s)", name, so))
	return Term{S: name, Sort: so}
}

func (w *World) DeclareConst(name string, so Sort) Term {
	if !w.constSeen[name] {
		w.constSeen[name] = true
		w.consts = append(w.consts, fmt.Sprintf("(declare-const %s %s)", name, so))
	}
	return Term{S: name, Sort: so}
}

func (w *World) DeclareFun(name string, args []Sort, ret Sort) {
	if w.constSeen[name] {
		return
	}
	w.constSeen[name] = true
	var as []string
	for _, a := range args {
		as = append(as, string(a))
	}
	w.consts = append(w.consts, fmt.Sprintf("(declare-fun %s (%s) %s)", name, strings.Join(as, " "), ret))
}

func (w *World) Define(name, line string) {
	if w.defSeen[name] {
		return
	}
	w.defSeen[name] = true
	w.defs = append(w.defs, line)
}

func (w *World) AddFact(pc Term, f Term) {
	if f.S == "true" {
		return
	}
	w.Facts = append(w.Facts, Implies(pc, f).S)
}

func (w *World) Note(s string) { w.Abstr[s]++ }

func (w *World) Oblige(name, kind string, pc, goal Term) *Obligation {
	o := &Obligation{Name: name, Kind: kind, FactsN: len(w.Facts), PC: pc.S, Goal: goal.S, Expect: "unsat", World: w}
	w.Obls = append(w.Obls, o)
	return o
}

// SeqSort returns (declaring on demand) the sequence datatype for an element sort.
func (w *World) SeqSort(elem Sort) Sort {
	name := Sort("Seq_" + sanitize(string(elem)))
	if _, ok := w.datas[name]; ok {
		return name
	}
	n := string(name)
	d := &DataDecl{Name: n, Ctor: "mk_" + n, Fields: []DataField{
		{Name: "base", Sel: n + "_base", Sort: ArraySort(SInt, elem)},
		{Name: "off", Sel: n + "_off", Sort: SInt},
		{Name: "len", Sel: n + "_len", Sort: SInt},
	}}
	w.datas[name] = d
	w.decls = append(w.decls, dataDeclText(d))
	w.seqSorts = append(w.seqSorts, name)
	return name
}

func (w *World) IsSeq(s Sort) bool { return strings.HasPrefix(string(s), "Seq_") }

func (w *World) SeqElem(s Sort) Sort {
	d := w.datas[s]
	return arrayElem(d.Fields[0].Sort)
}

func (w *World) MapSort(k, v Sort) Sort {
	name := Sort("Map_" + sanitize(string(k)) + "_" + sanitize(string(v)))
	if _, ok := w.datas[name]; ok {
		return name
	}
	n := string(name)
	d := &DataDecl{Name: n, Ctor: "mk_" + n, Fields: []DataField{
		{Name: "dom", Sel: n + "_dom", Sort: ArraySort(k, SBool)},
		{Name: "val", Sel: n + "_val", Sort: ArraySort(k, v)},
		{Name: "card", Sel: n + "_card", Sort: SInt},
	}}
	w.datas[name] = d
	w.decls = append(w.decls, dataDeclText(d))
	return name
}

func (w *World) IsMap(s Sort) bool { return strings.HasPrefix(string(s), "Map_") }

func dataDeclText(d *DataDecl) string {
	var b strings.Builder
	fmt.Fprintf(&b, "(declare-datatypes ((%s 0)) (((%s", d.Name, d.Ctor)
	for _, f := range d.Fields {
		fmt.Fprintf(&b, " (%s %s)", f.Sel, f.Sort)
	}
	b.WriteString("))))")
	return b.String()
}

func (w *World) OpaqueSort(name string) Sort {
	n := Sort("U_" + sanitize(name))
	if _, ok := w.datas[n]; ok {
		return n
	}
	w.datas[n] = &DataDecl{Name: string(n)}
	w.decls = append(w.decls, fmt.Sprintf("(declare-sort %s 0)", n))
	return n
}

// Field access on a datatype term.
func (w *World) Field(t Term, name string) (Term, bool) {
	d := w.datas[t.Sort]
	if d == nil {
		return Term{}, false
	}
	for _, f := range d.Fields {
		if f.Name == name {
			return Term{S: "(" + f.Sel + " " + t.S + ")", Sort: f.Sort, GoT: f.GoT}, true
		}
	}
	return Term{}, false
}

// WithField returns t with field name replaced by v.
func (w *World) WithField(t Term, name string, v Term) (Term, bool) {
	d := w.datas[t.Sort]
	if d == nil {
		return Term{}, false
	}
	var b strings.Builder
	b.WriteString("(" + d.Ctor)
	found := false
	for _, f := range d.Fields {
		b.WriteString(" ")
		if f.Name == name {
			found = true
			if v.Sort == SInt && f.Sort == SReal {
				v = ToReal(v)
			}
			b.WriteString(v.S)
		} else {
			b.WriteString("(" + f.Sel + " " + t.S + ")")
		}
	}
	b.WriteString(")")
	return Term{S: b.String(), Sort: t.Sort, GoT: t.GoT}, found
}

func (w *World) Mk(so Sort, vals ...Term) Term {
	d := w.datas[so]
	var b strings.Builder
	b.WriteString("(" + d.Ctor)
	for i, v := range vals {
		if i < len(d.Fields) && v.Sort == SInt && d.Fields[i].Sort == SReal {
			v = ToReal(v)
		}
		b.WriteString(" " + v.S)
	}
	b.WriteString(")")
	return Term{S: b.String(), Sort: so}
}

// Seq helpers
func (w *World) SeqLen(s Term) Term  { t, _ := w.Field(s, "len"); return t }
func (w *World) SeqOff(s Term) Term  { t, _ := w.Field(s, "off"); return t }
func (w *World) SeqBase(s Term) Term { t, _ := w.Field(s, "base"); return t }
func (w *World) SeqAt(s, i Term) Term {
	r := Term{S: "(" + string(s.Sort) + "_at " + s.S + " " + i.S + ")", Sort: w.SeqElem(s.Sort)}
	if sl, ok := s.GoT.(interface{ Elem() types.Type }); ok && s.GoT != nil {
		r.GoT = sl.Elem()
	} else if s.GoT != nil {
		if b, ok := s.GoT.Underlying().(*types.Basic); ok && b.Info()&types.IsString != 0 {
			r.GoT = types.Typ[types.Uint8]
		}
	}
	return r
}
func (w *World) MkSeq(so Sort, base, off, ln Term) Term { return w.Mk(so, base, off, ln) }

// ConstArray returns ((as const (Array Int E)) v).
func ConstArray(so Sort, v Term) Term {
	if isValueLiteral(v.S) || curWorld == nil {
		return Term{S: fmt.Sprintf("((as const %s) %s)", so, v.S), Sort: so}
	}
	// cvc5 only accepts values in constant arrays: use a named array with a defining axiom instead
	w := curWorld
	key := "carr$" + string(so) + "$" + v.S
	if t, ok := w.carrs[key]; ok {
		return t
	}
	w.nfresh++
	name := fmt.Sprintf("carr!%d", w.nfresh)
	w.consts = append(w.consts, fmt.Sprintf("(declare-const %s %s)", name, so))
	k, _ := arrayKV(so)
	w.Facts = append([]string{fmt.Sprintf("(forall ((i %s)) (! (= (select %s i) %s) :pattern ((select %s i))))", k, name, v.S, name)}, w.Facts...)
	for _, o := range w.Obls {
		o.FactsN++
	}
	t := Term{S: name, Sort: so}
	if w.carrs == nil {
		w.carrs = map[string]Term{}
	}
	w.carrs[key] = t
	return t
}

var curWorld *World

func isValueLiteral(s string) bool {
	if s == "true" || s == "false" {
		return true
	}
	for _, c := range s {
		if !(c >= '0' && c <= '9' || c == '.' || c == '(' || c == ')' || c == '-' || c == ' ' || c == '/') {
			return false
		}
	}
	return true
}

// SortOf maps a Go type to an SMT sort.
func (w *World) SortOf(t types.Type) Sort {
	switch u := t.(type) {
	case *types.Named:
		if u.Obj().Pkg() == nil && u.Obj().Name() == "error" {
			return SBool
		}
		if u.Obj().Pkg() != nil && ((u.Obj().Pkg().Path() == "bytes" && (u.Obj().Name() == "Buffer" || u.Obj().Name() == "Reader")) || (u.Obj().Pkg().Path() == "strings" && u.Obj().Name() == "Builder")) {
			return w.SeqSort(SInt)
		}
		if st, ok := u.Underlying().(*types.Struct); ok {
			if w.ModPath != "" && u.Obj().Pkg() != nil && !strings.HasPrefix(u.Obj().Pkg().Path(), w.ModPath) {
				// library struct: opaque (no contract speaks about its fields)
				return w.OpaqueSort("lib_" + u.Obj().Pkg().Name() + "_" + u.Obj().Name())
			}
			return w.structSort(u.Obj().Pkg().Name()+"_"+u.Obj().Name(), u, st)
		}
		if _, ok := u.Underlying().(*types.Interface); ok {
			return w.OpaqueSort("iface_" + u.Obj().Name())
		}
		return w.SortOf(u.Underlying())
	case *types.Alias:
		return w.SortOf(types.Unalias(u))
	case *types.Basic:
		switch {
		case u.Info()&types.IsBoolean != 0:
			return SBool
		case u.Info()&types.IsInteger != 0:
			return SInt
		case u.Info()&types.IsFloat != 0:
			return SReal
		case u.Info()&types.IsString != 0:
			return w.SeqSort(SInt)
		case u.Kind() == types.UntypedNil:
			return w.OpaqueSort("nil")
		}
		return w.OpaqueSort(u.Name())
	case *types.Slice:
		return w.SeqSort(w.SortOf(u.Elem()))
	case *types.Array:
		return ArraySort(SInt, w.SortOf(u.Elem()))
	case *types.Pointer:
		return w.SortOf(u.Elem())
	case *types.Map:
		return w.MapSort(w.SortOf(u.Key()), w.SortOf(u.Elem()))
	case *types.Struct:
		return w.structSort("anon_"+sanitize(u.String()), u, u)
	case *types.Interface:
		if u.NumMethods() == 1 && u.Method(0).Name() == "Error" {
			return SBool
		}
		return w.OpaqueSort("iface")
	case *types.Signature:
		return w.OpaqueSort("func")
	case *types.Tuple:
		return w.OpaqueSort("tuple")
	case *types.Chan:
		return w.OpaqueSort("chan")
	}
	return w.OpaqueSort(sanitize(t.String()))
}

func (w *World) structSort(name string, t types.Type, st *types.Struct) Sort {
	key := t.String()
	if s, ok := w.structOf[key]; ok {
		return s
	}
	if w.inprog[key] {
		// recursive reference: one-level unrolling (a copy of the datatype whose own recursive fields are opaque)
		if w.inprog[key+"$1"] {
			return w.OpaqueSort("rec_" + name)
		}
		if s, ok := w.structOf[key+"$1"]; ok {
			return s
		}
		w.inprog[key+"$1"] = true
		n := "S_" + sanitize(name) + "_1"
		d := &DataDecl{Name: n, Ctor: "mk_" + n, GoT: t}
		for i := 0; i < st.NumFields(); i++ {
			f := st.Field(i)
			fs := w.SortOf(f.Type())
			d.Fields = append(d.Fields, DataField{Name: f.Name(), Sel: n + "__" + f.Name(), Sort: fs, GoT: f.Type()})
		}
		delete(w.inprog, key+"$1")
		w.datas[Sort(n)] = d
		w.structOf[key+"$1"] = Sort(n)
		w.decls = append(w.decls, dataDeclText(d))
		return Sort(n)
	}
	w.inprog[key] = true
	n := "S_" + sanitize(name)
	d := &DataDecl{Name: n, Ctor: "mk_" + n, GoT: t}
	for i := 0; i < st.NumFields(); i++ {
		f := st.Field(i)
		fs := w.SortOf(f.Type())
		fname := f.Name()
		if fname == "_" {
			fname = fmt.Sprintf("blank%d", i)
		}
		d.Fields = append(d.Fields, DataField{Name: fname, Sel: n + "__" + fname, Sort: fs, GoT: f.Type()})
	}
	delete(w.inprog, key)
	if len(d.Fields) == 0 {
		d.Fields = append(d.Fields, DataField{Name: "$unit", Sel: n + "__unit", Sort: SBool})
	}
	w.datas[Sort(n)] = d
	w.structOf[key] = Sort(n)
	w.decls = append(w.decls, dataDeclText(d))
	return Sort(n)
}

// ConstTerm converts a go constant to a term of the wanted sort.
func ConstTerm(w *World, v constant.Value, so Sort) (Term, bool) {
	switch v.Kind() {
	case constant.Bool:
		if constant.BoolVal(v) {
			return True, true
		}
		return False, true
	case constant.Int:
		bi, ok := constant.Val(v).(*big.Int)
		if !ok {
			i64, _ := constant.Int64Val(v)
			bi = big.NewInt(i64)
		}
		if so == SReal {
			return RatLit(new(big.Rat).SetInt(bi)), true
		}
		return BigIntLit(bi), true
	case constant.Float:
		var r *big.Rat
		switch x := constant.Val(v).(type) {
		case *big.Rat:
			r = x
		case *big.Float:
			r, _ = x.Rat(nil)
		}
		if r == nil {
			f, _ := constant.Float64Val(v)
			r = new(big.Rat).SetFloat64(f)
		}
		if so == SInt && r.IsInt() {
			return BigIntLit(r.Num()), true
		}
		return RatLit(r), true
	case constant.String:
		return StringLit(w, constant.StringVal(v)), true
	}
	return Term{}, false
}

func StringLit(w *World, s string) Term {
	so := w.SeqSort(SInt)
	arr := ConstArray(ArraySort(SInt, SInt), IntLit(0))
	for i := 0; i < len(s); i++ {
		arr = Store(arr, IntLit(int64(i)), IntLit(int64(s[i])))
	}
	t := w.MkSeq(so, arr, IntLit(0), IntLit(int64(len(s))))
	t.GoT = types.Typ[types.String]
	return t
}

// Preamble renders all declarations.
func (w *World) Preamble(macroAt bool) string {
	var b strings.Builder
	b.WriteString("(set-logic ALL)\n")
	for _, d := range w.decls {
		b.WriteString(d + "\n")
	}
	for _, ss := range w.seqSorts {
		n := string(ss)
		el := w.SeqElem(ss)
		if macroAt {
			fmt.Fprintf(&b, "(define-fun %s_at ((s %s) (i Int)) %s (select (%s_base s) (+ (%s_off s) i)))\n", n, n, el, n, n)
		} else {
			fmt.Fprintf(&b, "(declare-fun %s_at (%s Int) %s)\n", n, n, el)
			fmt.Fprintf(&b, "(assert (forall ((s %s) (i Int)) (! (= (%s_at s i) (select (%s_base s) (+ (%s_off s) i))) :pattern ((%s_at s i)))))\n", n, n, n, n, n)
		}
	}
	b.WriteString(builtinDefs)
	for _, c := range w.consts {
		b.WriteString(c + "\n")
	}
	for _, d := range w.defs {
		b.WriteString(d + "\n")
	}
	return b.String()
}

const builtinDefs = `(define-fun gdiv ((a Int) (b Int)) Int (ite (> b 0) (ite (>= a 0) (div a b) (- (div (- a) b))) (ite (>= a 0) (- (div a (- b))) (div (- a) (- b)))))
(define-fun gmod ((a Int) (b Int)) Int (- a (* b (gdiv a b))))
(define-fun absI ((a Int)) Int (ite (>= a 0) a (- a)))
(define-fun absR ((a Real)) Real (ite (>= a 0.0) a (- a)))
(define-fun minI ((a Int) (b Int)) Int (ite (<= a b) a b))
(define-fun maxI ((a Int) (b Int)) Int (ite (>= a b) a b))
(define-fun minR ((a Real) (b Real)) Real (ite (<= a b) a b))
(define-fun maxR ((a Real) (b Real)) Real (ite (>= a b) a b))
(define-fun truncR ((a Real)) Int (ite (>= a 0.0) (to_int a) (- (to_int (- a)))))
(declare-fun bandU (Int Int) Int)
(declare-fun borU (Int Int) Int)
(declare-fun bxorU (Int Int) Int)
(declare-fun pow2U (Int) Int)
(declare-fun sqrtU (Real) Real)
`

func sortedKeys(m map[string]int) []string {
	var ks []string
	for k := range m {
		ks = append(ks, k)
	}
	sort.Strings(ks)
	return ks
}
