package vc

import (
	"fmt"
	"go/ast"
	"go/token"
	"go/types"
	"sort"
	"strings"
)

// GlobalWrite is one syntactic write (or address-taking / pointer-receiver call) on a package-level variable.
type GlobalWrite struct {
	Var  string // pkg.name
	Func string // function key containing the write
	Kind string // assign, index-assign, field-assign, addr, method-call, incdec
	Pos  string
}

func (g GlobalWrite) String() string {
	return fmt.Sprintf("%s written in %s (%s) at %s", g.Var, g.Func, g.Kind, g.Pos)
}

// GlobalWrites lists every write to a package-level variable in non-test code of the module.
func GlobalWrites(p *Program) []GlobalWrite {
	var out []GlobalWrite
	for _, pkg := range p.Pkgs {
		info := pkg.TypesInfo
		isGlobal := func(e ast.Expr) (*types.Var, string) {
			kind := "assign"
			for {
				switch x := e.(type) {
				case *ast.ParenExpr:
					e = x.X
					continue
				case *ast.IndexExpr:
					e = x.X
					kind = "index-assign"
					continue
				case *ast.SliceExpr:
					e = x.X
					kind = "index-assign"
					continue
				case *ast.StarExpr:
					e = x.X
					kind = "deref-assign"
					continue
				case *ast.SelectorExpr:
					if sel, ok := info.Selections[x]; ok && sel.Kind() == types.FieldVal {
						e = x.X
						kind = "field-assign"
						continue
					}
					if v, ok := info.Uses[x.Sel].(*types.Var); ok && v.Parent() == v.Pkg().Scope() {
						return v, kind
					}
					return nil, ""
				case *ast.Ident:
					if v, ok := info.Uses[x].(*types.Var); ok && v.Pkg() != nil && v.Parent() == v.Pkg().Scope() {
						return v, kind
					}
					return nil, ""
				}
				return nil, ""
			}
		}
		for i, f := range pkg.Syntax {
			fname := ""
			if i < len(pkg.CompiledGoFiles) {
				fname = pkg.CompiledGoFiles[i]
			}
			if strings.HasSuffix(fname, "_test.go") {
				continue
			}
			for _, d := range f.Decls {
				fd, ok := d.(*ast.FuncDecl)
				if !ok || fd.Body == nil {
					continue
				}
				key := FuncKey(pkg.Name, fd)
				add := func(v *types.Var, kind string, pos token.Pos) {
					ps := pkg.Fset.Position(pos)
					out = append(out, GlobalWrite{Var: v.Pkg().Name() + "." + v.Name(), Func: key, Kind: kind, Pos: fmt.Sprintf("%s:%d", relFile(ps.Filename), ps.Line)})
				}
				ast.Inspect(fd.Body, func(n ast.Node) bool {
					switch s := n.(type) {
					case *ast.AssignStmt:
						if s.Tok == token.DEFINE {
							return true
						}
						for _, l := range s.Lhs {
							if v, k := isGlobal(l); v != nil {
								add(v, k, l.Pos())
							}
						}
					case *ast.IncDecStmt:
						if v, _ := isGlobal(s.X); v != nil {
							add(v, "incdec", s.Pos())
						}
					case *ast.UnaryExpr:
						if s.Op == token.AND {
							if v, _ := isGlobal(s.X); v != nil {
								add(v, "addr", s.Pos())
							}
						}
					case *ast.RangeStmt:
						if s.Tok == token.ASSIGN {
							for _, e := range []ast.Expr{s.Key, s.Value} {
								if e != nil {
									if v, k := isGlobal(e); v != nil {
										add(v, k, e.Pos())
									}
								}
							}
						}
					case *ast.CallExpr:
						if se, ok := s.Fun.(*ast.SelectorExpr); ok {
							if sel, ok := info.Selections[se]; ok && sel.Kind() == types.MethodVal {
								if sig, ok := sel.Obj().Type().(*types.Signature); ok && sig.Recv() != nil {
									if _, isPtr := sig.Recv().Type().(*types.Pointer); isPtr {
										if v, _ := isGlobal(se.X); v != nil {
											// library types with internal synchronisation are not state of ours
											tn := v.Type().String()
											if strings.Contains(tn, "regexp.Regexp") || strings.Contains(tn, "sync.") {
												return true
											}
											add(v, "method-call:"+sel.Obj().Name(), s.Pos())
										}
									}
								}
							}
						}
						if id, ok := s.Fun.(*ast.Ident); ok && (id.Name == "delete" || id.Name == "copy") && len(s.Args) > 0 {
							if _, isB := info.Uses[id].(*types.Builtin); isB {
								if v, _ := isGlobal(s.Args[0]); v != nil {
									add(v, id.Name, s.Pos())
								}
							}
						}
					}
					return true
				})
			}
		}
	}
	sort.Slice(out, func(i, j int) bool { return out[i].String() < out[j].String() })
	return out
}

// IsReadonly reports whether the function never writes through its receiver or pointer parameters
// (syntactic, transitive over in-module callees; recursion is treated optimistically and re-checked by the callee itself).
func (p *Program) IsReadonly(fi *FuncInfo) bool {
	if p.roMemo == nil {
		p.roMemo = map[*FuncInfo]int{}
	}
	switch p.roMemo[fi] {
	case 1:
		return true
	case 2:
		return false
	case 3:
		return true // in progress (recursion)
	}
	p.roMemo[fi] = 3
	ok := p.computeReadonly(fi)
	if ok {
		p.roMemo[fi] = 1
	} else {
		p.roMemo[fi] = 2
	}
	return ok
}

func (p *Program) computeReadonly(fi *FuncInfo) bool {
	if fi.Decl.Body == nil {
		return false
	}
	info := fi.Pkg.TypesInfo
	sig := fi.Obj.Type().(*types.Signature)
	ptrs := map[types.Object]bool{}
	if rv := sig.Recv(); rv != nil {
		if _, isPtr := rv.Type().(*types.Pointer); isPtr {
			ptrs[rv] = true
		}
	}
	for i := 0; i < sig.Params().Len(); i++ {
		pv := sig.Params().At(i)
		switch pv.Type().Underlying().(type) {
		case *types.Pointer, *types.Map:
			ptrs[pv] = true
		}
	}
	if len(ptrs) == 0 {
		return true
	}
	mods := assignedVarsNoCallsExcept(info, fi.Decl.Body, p.cacheFieldNames())
	for o := range ptrs {
		if mods[o] {
			return false
		}
	}
	ok := true
	ast.Inspect(fi.Decl.Body, func(n ast.Node) bool {
		call, isCall := n.(*ast.CallExpr)
		if !isCall || !ok {
			return ok
		}
		rootOf := func(e ast.Expr) types.Object {
			for {
				switch x := e.(type) {
				case *ast.ParenExpr:
					e = x.X
				case *ast.StarExpr:
					e = x.X
				case *ast.UnaryExpr:
					e = x.X
				case *ast.SelectorExpr:
					if sel, isSel := info.Selections[x]; isSel && sel.Kind() == types.FieldVal {
						e = x.X
					} else {
						return nil
					}
				case *ast.IndexExpr:
					e = x.X
				case *ast.Ident:
					return info.Uses[x]
				default:
					return nil
				}
			}
		}
		var callee *types.Func
		var recvExpr ast.Expr
		switch f := ast.Unparen(call.Fun).(type) {
		case *ast.Ident:
			callee, _ = info.Uses[f].(*types.Func)
		case *ast.SelectorExpr:
			if sel, isSel := info.Selections[f]; isSel {
				callee, _ = sel.Obj().(*types.Func)
				recvExpr = f.X
			} else {
				callee, _ = info.Uses[f.Sel].(*types.Func)
			}
		}
		passes := false
		if recvExpr != nil {
			if o := rootOf(recvExpr); o != nil && ptrs[o] {
				if csig, isSig := callee.Type().(*types.Signature); isSig && csig.Recv() != nil {
					if _, isPtr := csig.Recv().Type().(*types.Pointer); isPtr {
						passes = true
					}
				}
			}
		}
		for _, a := range call.Args {
			if o := rootOf(a); o != nil && ptrs[o] {
				if t := info.TypeOf(a); t != nil {
					switch t.Underlying().(type) {
					case *types.Pointer, *types.Map:
						passes = true
					}
				}
				if u, isU := a.(*ast.UnaryExpr); isU && u.Op == token.AND {
					passes = true
				}
			}
		}
		if !passes {
			return true
		}
		if callee == nil {
			ok = false
			return false
		}
		cfi := p.ByObj[callee]
		if cfi == nil {
			// library callee receiving our pointer: assume it may write
			ok = false
			return false
		}
		if !p.IsReadonly(cfi) {
			ok = false
		}
		return ok
	})
	return ok
}

// cacheFieldNames: field names declared as memoisation caches by some contract (`cache f`).
func (p *Program) cacheFieldNames() map[string]bool {
	m := map[string]bool{}
	for _, fc := range p.Contracts.Funcs {
		for _, c := range fc.Cache {
			m[c] = true
		}
	}
	return m
}

func assignedVarsNoCalls(info *types.Info, n ast.Node) map[types.Object]bool {
	return assignedVarsNoCallsExcept(info, n, nil)
}

func assignedVarsNoCallsExcept(info *types.Info, n ast.Node, skipFields map[string]bool) map[types.Object]bool {
	out := map[types.Object]bool{}
	isCacheStore := func(e ast.Expr) bool {
		// x.cache[k] = v  where cache is a declared cache field
		if ix, ok := e.(*ast.IndexExpr); ok {
			if se, ok := ix.X.(*ast.SelectorExpr); ok && skipFields[se.Sel.Name] {
				return true
			}
		}
		return false
	}
	var root func(e ast.Expr) types.Object
	root = func(e ast.Expr) types.Object {
		switch e := e.(type) {
		case *ast.Ident:
			if o := info.Uses[e]; o != nil {
				return o
			}
			return info.Defs[e]
		case *ast.ParenExpr:
			return root(e.X)
		case *ast.StarExpr:
			return root(e.X)
		case *ast.SelectorExpr:
			if sel, ok := info.Selections[e]; ok && sel.Kind() == types.FieldVal {
				return root(e.X)
			}
		case *ast.IndexExpr:
			return root(e.X)
		case *ast.SliceExpr:
			return root(e.X)
		}
		return nil
	}
	ast.Inspect(n, func(n ast.Node) bool {
		switch s := n.(type) {
		case *ast.AssignStmt:
			if s.Tok == token.DEFINE {
				// a := p.f  is not a write to p; but x := &p.f aliases: treat conservatively below
			}
			for _, l := range s.Lhs {
				if _, isIdent := l.(*ast.Ident); isIdent {
					continue // rebinding a local name is not a write through it
				}
				if isCacheStore(l) {
					continue
				}
				if o := root(l); o != nil {
					out[o] = true
				}
			}
			for _, r := range s.Rhs {
				if u, ok := r.(*ast.UnaryExpr); ok && u.Op == token.AND {
					if o := root(u.X); o != nil {
						out[o] = true // address escapes into a local: conservative
					}
				}
			}
		case *ast.IncDecStmt:
			if _, isIdent := s.X.(*ast.Ident); !isIdent {
				if o := root(s.X); o != nil {
					out[o] = true
				}
			}
		}
		return true
	})
	return out
}

// ReadsField reports whether fi (transitively, through in-module callees that receive the receiver) reads
// the named field of its receiver.  Conservative: any selector .field on a value of the receiver's struct type counts.
func (p *Program) ReadsField(fi *FuncInfo, field string, seen map[*FuncInfo]bool) bool {
	if seen[fi] {
		return false
	}
	seen[fi] = true
	if fi.Decl.Body == nil {
		return true
	}
	info := fi.Pkg.TypesInfo
	sig := fi.Obj.Type().(*types.Signature)
	if sig.Recv() == nil {
		return false
	}
	rt := derefType(sig.Recv().Type())
	found := false
	ast.Inspect(fi.Decl.Body, func(n ast.Node) bool {
		if found {
			return false
		}
		switch e := n.(type) {
		case *ast.SelectorExpr:
			if sel, ok := info.Selections[e]; ok && sel.Kind() == types.FieldVal && e.Sel.Name == field {
				if types.Identical(derefType(info.TypeOf(e.X)), rt) {
					found = true
				}
			}
		case *ast.CallExpr:
			var callee *types.Func
			switch f := ast.Unparen(e.Fun).(type) {
			case *ast.Ident:
				callee, _ = info.Uses[f].(*types.Func)
			case *ast.SelectorExpr:
				if sel, ok := info.Selections[f]; ok {
					callee, _ = sel.Obj().(*types.Func)
				} else {
					callee, _ = info.Uses[f.Sel].(*types.Func)
				}
			}
			if callee != nil {
				if cfi := p.ByObj[callee]; cfi != nil {
					csig := cfi.Obj.Type().(*types.Signature)
					takes := csig.Recv() != nil && types.Identical(derefType(csig.Recv().Type()), rt)
					for i := 0; i < csig.Params().Len(); i++ {
						if types.Identical(derefType(csig.Params().At(i).Type()), rt) {
							takes = true
						}
					}
					if takes {
						if csig.Recv() != nil && types.Identical(derefType(csig.Recv().Type()), rt) {
							if p.ReadsField(cfi, field, seen) {
								found = true
							}
						} else {
							found = true // passed as a plain parameter: not tracked
						}
					}
				}
			}
		}
		return true
	})
	return found
}
