package vc

import (
	"fmt"
	"go/ast"
	"go/token"
	"go/types"
	"sort"
	"strings"
)

// GlobalWrite is one syntactic write (or address-taking / pointer-receiver call) on a package-level variable.
type GlobalWrite struct {
	Var  string // pkg.name
	Func string // function key containing the write
	Kind string // assign, index-assign, field-assign, addr, method-call, incdec
	Pos  string
}

func (g GlobalWrite) String() string {
	return fmt.Sprintf("%s written in %s (%s) at %s", g.Var, g.Func, g.Kind, g.Pos)
}

// GlobalWrites lists every write to a package-level variable in non-test code of the module.
func GlobalWrites(p *Program) []GlobalWrite {
	var out []GlobalWrite
	for _, pkg := range p.Pkgs {
		info := pkg.TypesInfo
		isGlobal := func(e ast.Expr) (*types.Var, string) {
			kind := "assign"
			for {
				switch x := e.(type) {
				case *ast.ParenExpr:
					e = x.X
					continue
				case *ast.IndexExpr:
					e = x.X
					kind = "index-assign"
					continue
				case *ast.SliceExpr:
					e = x.X
					kind = "index-assign"
					continue
				case *ast.StarExpr:
					e = x.X
					kind = "deref-assign"
					continue
				case *ast.SelectorExpr:
					if sel, ok := info.Selections[x]; ok && sel.Kind() == types.FieldVal {
						e = x.X
						kind = "field-assign"
						continue
					}
					if v, ok := info.Uses[x.Sel].(*types.Var); ok && v.Parent() == v.Pkg().Scope() {
						return v, kind
					}
					return nil, ""
				case *ast.Ident:
					if v, ok := info.Uses[x].(*types.Var); ok && v.Pkg() != nil && v.Parent() == v.Pkg().Scope() {
						return v, kind
					}
					return nil, ""
				}
				return nil, ""
			}
		}
		for i, f := range pkg.Syntax {
			fname := ""
			if i < len(pkg.CompiledGoFiles) {
				fname = pkg.CompiledGoFiles[i]
			}
			if strings.HasSuffix(fname, "_test.go") {
				continue
			}
			for _, d := range f.Decls {
				fd, ok := d.(*ast.FuncDecl)
				if !ok || fd.Body == nil {
					continue
				}
				key := FuncKey(pkg.Name, fd)
				add := func(v *types.Var, kind string, pos token.Pos) {
					ps := pkg.Fset.Position(pos)
					out = append(out, GlobalWrite{Var: v.Pkg().Name() + "." + v.Name(), Func: key, Kind: kind, Pos: fmt.Sprintf("%s:%d", relFile(ps.Filename), ps.Line)})
				}
				ast.Inspect(fd.Body, func(n ast.Node) bool {
					switch s := n.(type) {
					case *ast.AssignStmt:
						if s.Tok == token.DEFINE {
							return true
						}
						for _, l := range s.Lhs {
							if v, k := isGlobal(l); v != nil {
								add(v, k, l.Pos())
							}
						}
					case *ast.IncDecStmt:
						if v, _ := isGlobal(s.X); v != nil {
							add(v, "incdec", s.Pos())
						}
					case *ast.UnaryExpr:
						if s.Op == token.AND {
							if v, _ := isGlobal(s.X); v != nil {
								add(v, "addr", s.Pos())
							}
						}
					case *ast.RangeStmt:
						if s.Tok == token.ASSIGN {
							for _, e := range []ast.Expr{s.Key, s.Value} {
								if e != nil {
									if v, k := isGlobal(e); v != nil {
										add(v, k, e.Pos())
									}
								}
							}
						}
					case *ast.CallExpr:
						if se, ok := s.Fun.(*ast.SelectorExpr); ok {
							if sel, ok := info.Selections[se]; ok && sel.Kind() == types.MethodVal {
								if sig, ok := sel.Obj().Type().(*types.Signature); ok && sig.Recv() != nil {
									if _, isPtr := sig.Recv().Type().(*types.Pointer); isPtr {
										if v, _ := isGlobal(se.X); v != nil {
											// library types with internal synchronisation are not state of ours
											tn := v.Type().String()
											if strings.Contains(tn, "regexp.Regexp") || strings.Contains(tn, "sync.") {
												return true
											}
											add(v, "method-call:"+sel.Obj().Name(), s.Pos())
										}
									}
								}
							}
						}
						if id, ok := s.Fun.(*ast.Ident); ok && (id.Name == "delete" || id.Name == "copy") && len(s.Args) > 0 {
							if _, isB := info.Uses[id].(*types.Builtin); isB {
								if v, _ := isGlobal(s.Args[0]); v != nil {
									add(v, id.Name, s.Pos())
								}
							}
						}
					}
					return true
				})
			}
		}
	}
	sort.Slice(out, func(i, j int) bool { return out[i].String() < out[j].String() })
	return out
}
