package vc

import (
	"encoding/json"
	"fmt"
	"go/ast"
	"go/token"
	"go/types"
	"os"
	"sort"
	"strings"
)

// GlobalWrite is one syntactic write (or address-taking / pointer-receiver call) on a package-level variable.
type GlobalWrite struct {
	Var  string // pkg.name
	Func string // function key containing the write
	Kind string // assign, index-assign, field-assign, addr, method-call, incdec
	Pos  string
}

func (g GlobalWrite) String() string {
	return fmt.Sprintf("%s written in %s (%s) at %s", g.Var, g.Func, g.Kind, g.Pos)
}

// GlobalWrites lists every write to a package-level variable in non-test code of the module.
func GlobalWrites(p *Program) []GlobalWrite {
	var out []GlobalWrite
	for _, pkg := range p.Pkgs {
		info := pkg.TypesInfo
		isGlobal := func(e ast.Expr) (*types.Var, string) {
			kind := "assign"
			for {
				switch x := e.(type) {
				case *ast.ParenExpr:
					e = x.X
					continue
				case *ast.IndexExpr:
					e = x.X
					kind = "index-assign"
					continue
				case *ast.SliceExpr:
					e = x.X
					kind = "index-assign"
					continue
				case *ast.StarExpr:
					e = x.X
					kind = "deref-assign"
					continue
				case *ast.SelectorExpr:
					if sel, ok := info.Selections[x]; ok && sel.Kind() == types.FieldVal {
						e = x.X
						kind = "field-assign"
						continue
					}
					if v, ok := info.Uses[x.Sel].(*types.Var); ok && v.Parent() == v.Pkg().Scope() {
						return v, kind
					}
					return nil, ""
				case *ast.Ident:
					if v, ok := info.Uses[x].(*types.Var); ok && v.Pkg() != nil && v.Parent() == v.Pkg().Scope() {
						return v, kind
					}
					return nil, ""
				}
				return nil, ""
			}
		}
		for i, f := range pkg.Syntax {
			fname := ""
			if i < len(pkg.CompiledGoFiles) {
				fname = pkg.CompiledGoFiles[i]
			}
			if strings.HasSuffix(fname, "_test.go") {
				continue
			}
			for _, d := range f.Decls {
				fd, ok := d.(*ast.FuncDecl)
				if !ok || fd.Body == nil {
					continue
				}
				key := FuncKey(pkg.Name, fd)
				add := func(v *types.Var, kind string, pos token.Pos) {
					ps := pkg.Fset.Position(pos)
					out = append(out, GlobalWrite{Var: v.Pkg().Name() + "." + v.Name(), Func: key, Kind: kind, Pos: fmt.Sprintf("%s:%d", relFile(ps.Filename), ps.Line)})
				}
				ast.Inspect(fd.Body, func(n ast.Node) bool {
					switch s := n.(type) {
					case *ast.AssignStmt:
						if s.Tok == token.DEFINE {
							return true
						}
						for _, l := range s.Lhs {
							if v, k := isGlobal(l); v != nil {
								add(v, k, l.Pos())
							}
						}
					case *ast.IncDecStmt:
						if v, _ := isGlobal(s.X); v != nil {
							add(v, "incdec", s.Pos())
						}
					case *ast.UnaryExpr:
						if s.Op == token.AND {
							if v, _ := isGlobal(s.X); v != nil {
								add(v, "addr", s.Pos())
							}
						}
					case *ast.RangeStmt:
						if s.Tok == token.ASSIGN {
							for _, e := range []ast.Expr{s.Key, s.Value} {
								if e != nil {
									if v, k := isGlobal(e); v != nil {
										add(v, k, e.Pos())
									}
								}
							}
						}
					case *ast.CallExpr:
						if se, ok := s.Fun.(*ast.SelectorExpr); ok {
							if sel, ok := info.Selections[se]; ok && sel.Kind() == types.MethodVal {
								if sig, ok := sel.Obj().Type().(*types.Signature); ok && sig.Recv() != nil {
									if _, isPtr := sig.Recv().Type().(*types.Pointer); isPtr {
										if v, _ := isGlobal(se.X); v != nil {
											// library types with internal synchronisation are not state of ours
											tn := v.Type().String()
											if strings.Contains(tn, "regexp.Regexp") || strings.Contains(tn, "sync.") {
												return true
											}
											add(v, "method-call:"+sel.Obj().Name(), s.Pos())
										}
									}
								}
							}
						}
						if id, ok := s.Fun.(*ast.Ident); ok && (id.Name == "delete" || id.Name == "copy") && len(s.Args) > 0 {
							if _, isB := info.Uses[id].(*types.Builtin); isB {
								if v, _ := isGlobal(s.Args[0]); v != nil {
									add(v, id.Name, s.Pos())
								}
							}
						}
					}
					return true
				})
			}
		}
	}
	sort.Slice(out, func(i, j int) bool { return out[i].String() < out[j].String() })
	return out
}

// IsReadonly reports whether the function never writes through its receiver or pointer parameters
// (syntactic, transitive over in-module callees; recursion is treated optimistically and re-checked by the callee itself).
// IsRecvReadonly: like IsReadonly but only about the receiver (pointer parameters may be written).
func (p *Program) IsRecvReadonly(fi *FuncInfo) bool {
	if p.rroMemo == nil {
		p.rroMemo = map[*FuncInfo]int{}
	}
	switch p.rroMemo[fi] {
	case 1, 3:
		return true
	case 2:
		return false
	}
	p.rroMemo[fi] = 3
	ok := p.computeReadonlyX(fi, true)
	if ok {
		p.rroMemo[fi] = 1
	} else {
		p.rroMemo[fi] = 2
	}
	return ok
}

func (p *Program) IsReadonly(fi *FuncInfo) bool {
	if p.roMemo == nil {
		p.roMemo = map[*FuncInfo]int{}
	}
	switch p.roMemo[fi] {
	case 1:
		return true
	case 2:
		return false
	case 3:
		return true // in progress (recursion)
	}
	p.roMemo[fi] = 3
	ok := p.computeReadonly(fi)
	if ok {
		p.roMemo[fi] = 1
	} else {
		p.roMemo[fi] = 2
	}
	return ok
}

func (p *Program) computeReadonly(fi *FuncInfo) bool { return p.computeReadonlyX(fi, false) }

func (p *Program) computeReadonlyX(fi *FuncInfo, onlyRecv bool) bool {
	if fi.Decl.Body == nil {
		return false
	}
	info := fi.Pkg.TypesInfo
	sig := fi.Obj.Type().(*types.Signature)
	ptrs := map[types.Object]bool{}
	if rv := sig.Recv(); rv != nil {
		if _, isPtr := rv.Type().(*types.Pointer); isPtr {
			ptrs[rv] = true
		}
	}
	for i := 0; i < sig.Params().Len() && !onlyRecv; i++ {
		pv := sig.Params().At(i)
		switch pv.Type().Underlying().(type) {
		case *types.Pointer, *types.Map:
			if isHTMLNode(derefType(pv.Type())) {
				continue // x/net/html trees are opaque and not part of the modelled state (A9): nothing to frame
			}
			ptrs[pv] = true
		}
	}
	if len(ptrs) == 0 {
		return true
	}
	mods := assignedVarsNoCallsExcept(info, fi.Decl.Body, p.cacheFieldNames())
	for o := range ptrs {
		if mods[o] {
			return false
		}
	}
	ok := true
	ast.Inspect(fi.Decl.Body, func(n ast.Node) bool {
		call, isCall := n.(*ast.CallExpr)
		if !isCall || !ok {
			return ok
		}
		rootOf := func(e ast.Expr) types.Object {
			for {
				switch x := e.(type) {
				case *ast.ParenExpr:
					e = x.X
				case *ast.StarExpr:
					e = x.X
				case *ast.UnaryExpr:
					e = x.X
				case *ast.SelectorExpr:
					if sel, isSel := info.Selections[x]; isSel && sel.Kind() == types.FieldVal {
						e = x.X
					} else {
						return nil
					}
				case *ast.IndexExpr:
					e = x.X
				case *ast.Ident:
					return info.Uses[x]
				default:
					return nil
				}
			}
		}
		var callee *types.Func
		var recvExpr ast.Expr
		if id, isId := ast.Unparen(call.Fun).(*ast.Ident); isId {
			if b, isB := info.Uses[id].(*types.Builtin); isB {
				if (b.Name() == "delete" || b.Name() == "copy") && len(call.Args) > 0 {
					if o := rootOf(call.Args[0]); o != nil && ptrs[o] {
						ok = false
					}
				}
				return ok
			}
		}
		if tv, isT := info.Types[call.Fun]; isT && tv.IsType() {
			return true // conversion
		}
		switch f := ast.Unparen(call.Fun).(type) {
		case *ast.Ident:
			callee, _ = info.Uses[f].(*types.Func)
		case *ast.SelectorExpr:
			if sel, isSel := info.Selections[f]; isSel {
				callee, _ = sel.Obj().(*types.Func)
				recvExpr = f.X
			} else {
				callee, _ = info.Uses[f.Sel].(*types.Func)
			}
		}
		passes := false
		if recvExpr != nil {
			if o := rootOf(recvExpr); o != nil && ptrs[o] {
				if csig, isSig := callee.Type().(*types.Signature); isSig && csig.Recv() != nil {
					if _, isPtr := csig.Recv().Type().(*types.Pointer); isPtr {
						passes = true
					}
				}
			}
		}
		for _, a := range call.Args {
			if o := rootOf(a); o != nil && ptrs[o] {
				if t := info.TypeOf(a); t != nil {
					switch t.Underlying().(type) {
					case *types.Pointer, *types.Map:
						passes = true
					}
				}
				if u, isU := a.(*ast.UnaryExpr); isU && u.Op == token.AND {
					passes = true
				}
			}
		}
		if !passes {
			return true
		}
		if callee == nil {
			ok = false
			return false
		}
		cfi := p.ByObj[callee]
		if cfi == nil {
			// library callee receiving our pointer: assume it may write — unless everything passed is an opaque library
			// struct (zip.File, html.Node, ...), which is not part of the modelled state (assumption A9)
			allOpaque := true
			check := func(e ast.Expr) {
				if o := rootOf(e); o != nil && ptrs[o] {
					if t := info.TypeOf(e); t == nil || !isLibraryStruct(derefType(t)) {
						allOpaque = false
					}
				}
			}
			if recvExpr != nil {
				check(recvExpr)
			}
			for _, a := range call.Args {
				check(a)
			}
			if allOpaque {
				return true
			}
			ok = false
			return false
		}
		if onlyRecv {
			// the receiver is passed on: as the callee's receiver (its receiver-readonly-ness matters) or as an argument (conservative)
			if recvExpr != nil && rootOf(recvExpr) != nil && ptrs[rootOf(recvExpr)] {
				if !p.IsRecvReadonly(cfi) {
					ok = false
				}
			} else if !p.IsReadonly(cfi) {
				ok = false
			}
			return ok
		}
		if !p.IsReadonly(cfi) {
			ok = false
		}
		return ok
	})
	return ok
}

// cacheFieldNames: field names declared as memoisation caches by some contract (`cache f`).
func (p *Program) cacheFieldNames() map[string]bool {
	m := map[string]bool{}
	for _, fc := range p.Contracts.Funcs {
		for _, c := range fc.Cache {
			m[c] = true
		}
	}
	return m
}

func assignedVarsNoCalls(info *types.Info, n ast.Node) map[types.Object]bool {
	return assignedVarsNoCallsExcept(info, n, nil)
}

func assignedVarsNoCallsExcept(info *types.Info, n ast.Node, skipFields map[string]bool) map[types.Object]bool {
	out := map[types.Object]bool{}
	isCacheStore := func(e ast.Expr) bool {
		// x.cache[k] = v  where cache is a declared cache field
		if ix, ok := e.(*ast.IndexExpr); ok {
			if se, ok := ix.X.(*ast.SelectorExpr); ok && skipFields[se.Sel.Name] {
				return true
			}
		}
		return false
	}
	var root func(e ast.Expr) types.Object
	root = func(e ast.Expr) types.Object {
		switch e := e.(type) {
		case *ast.Ident:
			if o := info.Uses[e]; o != nil {
				return o
			}
			return info.Defs[e]
		case *ast.ParenExpr:
			return root(e.X)
		case *ast.StarExpr:
			return root(e.X)
		case *ast.SelectorExpr:
			if sel, ok := info.Selections[e]; ok && sel.Kind() == types.FieldVal {
				return root(e.X)
			}
		case *ast.IndexExpr:
			return root(e.X)
		case *ast.SliceExpr:
			return root(e.X)
		}
		return nil
	}
	ast.Inspect(n, func(n ast.Node) bool {
		switch s := n.(type) {
		case *ast.AssignStmt:
			if s.Tok == token.DEFINE {
				// a := p.f  is not a write to p; but x := &p.f aliases: treat conservatively below
			}
			for _, l := range s.Lhs {
				if _, isIdent := l.(*ast.Ident); isIdent {
					continue // rebinding a local name is not a write through it
				}
				if isCacheStore(l) {
					continue
				}
				if o := root(l); o != nil {
					out[o] = true
				}
			}
			for _, r := range s.Rhs {
				if u, ok := r.(*ast.UnaryExpr); ok && u.Op == token.AND {
					if o := root(u.X); o != nil {
						out[o] = true // address escapes into a local: conservative
					}
				}
			}
		case *ast.IncDecStmt:
			if _, isIdent := s.X.(*ast.Ident); !isIdent {
				if o := root(s.X); o != nil {
					out[o] = true
				}
			}
		}
		return true
	})
	return out
}

// ReadsField reports whether fi (transitively, through in-module callees that receive the receiver) reads
// the named field of its receiver.  Conservative: any selector .field on a value of the receiver's struct type counts.
func (p *Program) ReadsField(fi *FuncInfo, field string, seen map[*FuncInfo]bool) bool {
	if seen[fi] {
		return false
	}
	seen[fi] = true
	if fi.Decl.Body == nil {
		return true
	}
	info := fi.Pkg.TypesInfo
	sig := fi.Obj.Type().(*types.Signature)
	if sig.Recv() == nil {
		return false
	}
	rt := derefType(sig.Recv().Type())
	found := false
	// pure stores (recv.f = v, recv.f[k] = v) write the field without reading what it held
	storeOnly := map[*ast.SelectorExpr]bool{}
	ast.Inspect(fi.Decl.Body, func(n ast.Node) bool {
		if as, ok := n.(*ast.AssignStmt); ok && as.Tok == token.ASSIGN {
			for _, l := range as.Lhs {
				l = ast.Unparen(l)
				if ix, ok := l.(*ast.IndexExpr); ok {
					if _, isMap := info.TypeOf(ix.X).Underlying().(*types.Map); isMap {
						l = ast.Unparen(ix.X)
					}
				}
				if se, ok := l.(*ast.SelectorExpr); ok {
					storeOnly[se] = true
				}
			}
		}
		return true
	})
	ast.Inspect(fi.Decl.Body, func(n ast.Node) bool {
		if found {
			return false
		}
		switch e := n.(type) {
		case *ast.SelectorExpr:
			if sel, ok := info.Selections[e]; ok && sel.Kind() == types.FieldVal && e.Sel.Name == field && !storeOnly[e] {
				if types.Identical(derefType(info.TypeOf(e.X)), rt) {
					found = true
				}
			}
		case *ast.CallExpr:
			var callee *types.Func
			switch f := ast.Unparen(e.Fun).(type) {
			case *ast.Ident:
				callee, _ = info.Uses[f].(*types.Func)
			case *ast.SelectorExpr:
				if sel, ok := info.Selections[f]; ok {
					callee, _ = sel.Obj().(*types.Func)
				} else {
					callee, _ = info.Uses[f.Sel].(*types.Func)
				}
			}
			if callee != nil {
				if cfi := p.ByObj[callee]; cfi != nil {
					csig := cfi.Obj.Type().(*types.Signature)
					takes := csig.Recv() != nil && types.Identical(derefType(csig.Recv().Type()), rt)
					for i := 0; i < csig.Params().Len(); i++ {
						if types.Identical(derefType(csig.Params().At(i).Type()), rt) {
							takes = true
						}
					}
					if takes {
						if csig.Recv() != nil && types.Identical(derefType(csig.Recv().Type()), rt) {
							if p.ReadsField(cfi, field, seen) {
								found = true
							}
						} else {
							found = true // passed as a plain parameter: not tracked
						}
					}
				}
			}
		}
		return true
	})
	return found
}

// CallGraph: static call edges between module functions (direct calls, method calls resolved by name for interface
// receivers, and references to functions as values).
func (p *Program) CallGraph() map[string][]string {
	if p.cg != nil {
		return p.cg
	}
	cg := map[string][]string{}
	for k, fi := range p.Funcs {
		if fi.Decl.Body == nil || strings.HasSuffix(fi.File, "_test.go") {
			continue
		}
		cg[k] = p.calleesIn(fi, fi.Decl.Body)
	}
	p.cg = cg
	return cg
}

// calleesIn: module functions called or referenced inside node (a body of fi or a closure literal in it).
func (p *Program) calleesIn(fi *FuncInfo, node ast.Node) []string {
	if p.byMethodName == nil {
		p.byMethodName = map[string][]string{}
		for k, f := range p.Funcs {
			if f.Decl.Recv != nil {
				p.byMethodName[f.Decl.Name.Name] = append(p.byMethodName[f.Decl.Name.Name], k)
			}
		}
	}
	info := fi.Pkg.TypesInfo
	seen := map[string]bool{}
	var out []string
	add := func(t string) {
		if !seen[t] {
			seen[t] = true
			out = append(out, t)
		}
	}
	ast.Inspect(node, func(n ast.Node) bool {
		switch e := n.(type) {
		case *ast.Ident:
			if fn, ok := info.Uses[e].(*types.Func); ok {
				if cfi := p.ByObj[fn]; cfi != nil {
					add(cfi.Key)
				}
			}
		case *ast.SelectorExpr:
			if sel, ok := info.Selections[e]; ok && sel.Kind() == types.MethodVal {
				if fn, ok := sel.Obj().(*types.Func); ok {
					if cfi := p.ByObj[fn]; cfi != nil {
						add(cfi.Key)
					} else if _, isIface := sel.Recv().Underlying().(*types.Interface); isIface {
						for _, t := range p.byMethodName[fn.Name()] {
							add(t)
						}
					}
				}
			}
		}
		return true
	})
	return out
}

// FrameUnit builds the C03 frame obligations: no package-level variable is written on any path reachable from an
// exported entry point, except through the configuration APIs declared with `global ... mutator ...`.
func FrameUnit(p *Program, prop string) *Unit {
	u := &Unit{Name: "frame:package-level-state", Kind: "frame", File: "(whole module)", Props: []string{prop}}
	w := NewWorld()
	u.World = w
	cg := p.CallGraph()
	allowed := map[string]GlobalClause{} // pkg.var|mutatorKey
	for _, g := range p.Contracts.Globals {
		allowed[g.Pkg+"."+g.Var+"|"+g.Pkg+"."+g.Mutator] = g
	}
	// effective writers: direct writes, and non-readonly pointer-receiver method calls on the variable
	type wr struct {
		v, f, kind, pos string
	}
	var writers []wr
	for _, gw := range GlobalWrites(p) {
		if strings.HasPrefix(gw.Kind, "method-call:") {
			name := strings.TrimPrefix(gw.Kind, "method-call:")
			ro := false
			for k, fi := range p.Funcs {
				if fi.Decl.Recv != nil && fi.Decl.Name.Name == name && strings.HasPrefix(k, strings.SplitN(gw.Var, ".", 2)[0]+".") && p.IsReadonly(fi) {
					ro = true
				}
			}
			if ro {
				continue
			}
		}
		writers = append(writers, wr{gw.Var, gw.Func, gw.Kind, gw.Pos})
	}
	// writes through copies of references held by package-level variables (aliases.go)
	aliasEvents, _ := GlobalAliasWrites(p)
	for _, gw := range aliasEvents {
		writers = append(writers, wr{gw.Var, gw.Func, gw.Kind, gw.Pos})
	}
	// roots: exported functions and methods (non-test), minus init and declared mutators
	isMutator := map[string]bool{}
	for _, g := range p.Contracts.Globals {
		isMutator[g.Pkg+"."+g.Mutator] = true
	}
	var roots []string
	for k, fi := range p.Funcs {
		if strings.HasSuffix(fi.File, "_test.go") || !fi.Decl.Name.IsExported() || isMutator[k] {
			continue
		}
		roots = append(roots, k)
	}
	sort.Strings(roots)
	reach := map[string]string{} // func -> a root that reaches it
	var stack []string
	for _, r := range roots {
		if _, ok := reach[r]; !ok {
			reach[r] = r
			stack = append(stack, r)
		}
		for len(stack) > 0 {
			f := stack[len(stack)-1]
			stack = stack[:len(stack)-1]
			for _, t := range cg[f] {
				if _, ok := reach[t]; !ok {
					reach[t] = reach[f]
					stack = append(stack, t)
				}
			}
		}
	}
	byVar := map[string][]wr{}
	for _, x := range writers {
		byVar[x.v] = append(byVar[x.v], x)
	}
	var vars []string
	for v := range byVar {
		vars = append(vars, v)
	}
	sort.Strings(vars)
	for _, v := range vars {
		o := w.Oblige(prop+"/frame/"+v, "frame", True, True)
		o.Preset, o.Solver, o.Result = true, "frame-analysis", "unsat"
		for _, x := range byVar[v] {
			fname := x.f[strings.LastIndex(x.f, ".")+1:]
			if fname == "init" {
				continue
			}
			if _, ok := allowed[v+"|"+x.f]; ok {
				if root, reached := reach[x.f]; reached {
					o.Result = "sat"
					o.Output += fmt.Sprintf("declared mutator %s is reachable from entry point %s; ", x.f, root)
				}
				continue
			}
			if root, reached := reach[x.f]; reached {
				o.Result = "sat"
				o.Output += fmt.Sprintf("%s (%s at %s), reachable from entry point %s; ", x.f, x.kind, x.pos, root)
			} else {
				// written by code no exported entry point reaches (dead or init-only helper)
				callersOnlyInit := true
				for f, ts := range cg {
					for _, t := range ts {
						if t == x.f && !strings.HasSuffix(f, ".init") && !isMutator[f] {
							callersOnlyInit = false
						}
					}
				}
				if !callersOnlyInit {
					o.Result = "sat"
					o.Output += fmt.Sprintf("%s (%s at %s) is called from non-init code; ", x.f, x.kind, x.pos)
				}
			}
		}
	}
	// map iteration order (rule 3): every range-over-map loop accepted by the structural rules on the reviewed tree is
	// claimed (listed in /verif/baseline/C03.maporder.json); the others are reported as unclaimed, not as proved.
	claimed := loadStringSet(BaselineDir + "/C03.maporder.json")
	for _, mr := range MapRanges(p) {
		name := fmt.Sprintf("%s/maporder/%s#%d", prop, mr.Func, mr.Ordinal)
		if !claimed[fmt.Sprintf("%s#%d", mr.Func, mr.Ordinal)] {
			if !mr.OK {
				w.Note(fmt.Sprintf("unclaimed map iteration %s#%d at %s: %s", mr.Func, mr.Ordinal, mr.Pos, mr.Why))
			}
			continue
		}
		mo := w.Oblige(name, "frame", True, True)
		mo.Preset, mo.Solver = true, "maporder-rules"
		if mr.OK {
			mo.Result = "unsat"
		} else {
			mo.Result = "sat"
			mo.Output = mr.Why + " (" + mr.Pos + ")"
		}
		delete(claimed, fmt.Sprintf("%s#%d", mr.Func, mr.Ordinal))
	}
	for k := range claimed {
		mo := w.Oblige(prop+"/maporder/"+k, "frame", True, True)
		mo.Preset, mo.Solver, mo.Result = true, "maporder-rules", "sat"
		mo.Output = "claimed map iteration no longer exists (function or loop removed/renumbered)"
	}
	// one summary obligation so that the unit is never empty: the set of package-level variables with any write
	o := w.Oblige(prop+"/frame/summary:no-undeclared-mutable-state", "frame", True, True)
	o.Preset, o.Solver, o.Result = true, "frame-analysis", "unsat"
	o.Note = fmt.Sprintf("%d package-level variables have writes; %d exported entry points; %d functions reachable", len(vars), len(roots), len(reach))
	return u
}

// BaselineDir is set by the driver (/verif/baseline).
var BaselineDir = "/verif/baseline"

func loadStringSet(path string) map[string]bool {
	out := map[string]bool{}
	data, err := os.ReadFile(path)
	if err != nil {
		return out
	}
	var xs []string
	if json.Unmarshal(data, &xs) == nil {
		for _, x := range xs {
			out[x] = true
		}
	}
	return out
}

// AliasReuseSites lists expressions in fn that make a new slice value share the backing array of a live one in a way
// that later appends overwrite: X[:0] / X[:k] (two-index reslice from 0) used as an assignment source or as the first
// argument of append.  (X[:0:0] and append([]T(nil), X...) are the copying idioms and are not listed.)
func AliasReuseSites(fi *FuncInfo) []string {
	var out []string
	if fi.Decl.Body == nil {
		return nil
	}
	isPrefixReslice := func(e ast.Expr) bool {
		se, ok := ast.Unparen(e).(*ast.SliceExpr)
		if !ok || se.Slice3 {
			return false
		}
		if se.Low != nil {
			if bl, ok := se.Low.(*ast.BasicLit); !ok || bl.Value != "0" {
				return false
			}
		}
		return se.High != nil
	}
	pos := func(n ast.Node) string {
		ps := fi.Pkg.Fset.Position(n.Pos())
		return fmt.Sprintf("%s:%d", relFile(ps.Filename), ps.Line)
	}
	ast.Inspect(fi.Decl.Body, func(n ast.Node) bool {
		switch s := n.(type) {
		case *ast.AssignStmt:
			for i, r := range s.Rhs {
				if isPrefixReslice(r) && i < len(s.Lhs) {
					// x = x[:n] as a pure truncation of a local that is not reused for appending is harmless, but we
					// cannot tell: listed; the reviewed tree's occurrences are in the baseline of accepted sites
					out = append(out, fmt.Sprintf("%s = %s (%s)", types.ExprString(s.Lhs[i]), types.ExprString(r), pos(s)))
				}
			}
		case *ast.CallExpr:
			if id, ok := s.Fun.(*ast.Ident); ok && id.Name == "append" && len(s.Args) > 0 && isPrefixReslice(s.Args[0]) {
				out = append(out, fmt.Sprintf("%s (%s)", types.ExprString(s), pos(s)))
			}
		}
		return true
	})
	return out
}

// isFreshSliceExpr: expression forms that allocate a new backing array.
func isFreshSliceExpr(info *types.Info, e ast.Expr) bool {
	e = ast.Unparen(e)
	switch x := e.(type) {
	case *ast.Ident:
		return x.Name == "nil"
	case *ast.CompositeLit:
		return true
	case *ast.CallExpr:
		if id, ok := x.Fun.(*ast.Ident); ok {
			switch id.Name {
			case "make":
				return true
			case "append":
				if len(x.Args) == 0 {
					return false
				}
				a0 := ast.Unparen(x.Args[0])
				if id0, ok := a0.(*ast.Ident); ok && id0.Name == "nil" {
					return true
				}
				if cl, ok := a0.(*ast.CompositeLit); ok && len(cl.Elts) == 0 {
					return true
				}
				if conv, ok := a0.(*ast.CallExpr); ok && len(conv.Args) == 1 {
					if tv, ok := info.Types[conv.Fun]; ok && tv.IsType() {
						if id1, ok := ast.Unparen(conv.Args[0]).(*ast.Ident); ok && id1.Name == "nil" {
							return true
						}
					}
				}
				if se, ok := a0.(*ast.SliceExpr); ok && se.Slice3 {
					// x[:0:0]
					if isZeroLit(se.High) && isZeroLit(se.Max) {
						return true
					}
				}
				return false
			}
		}
	}
	return false
}

func isZeroLit(e ast.Expr) bool {
	bl, ok := e.(*ast.BasicLit)
	return ok && bl.Value == "0"
}

// StaleFieldStores lists stores into fields named name (assignment or composite-literal key) whose value is not a fresh slice
// and not an append onto the same field path.
func StaleFieldStores(fi *FuncInfo, name string) []string {
	var out []string
	info := fi.Pkg.TypesInfo
	pos := func(n ast.Node) string {
		ps := fi.Pkg.Fset.Position(n.Pos())
		return fmt.Sprintf("%s:%d", relFile(ps.Filename), ps.Line)
	}
	okExpr := func(lhs ast.Expr, e ast.Expr) bool {
		if isFreshSliceExpr(info, e) {
			return true
		}
		if lhs != nil {
			if call, ok := ast.Unparen(e).(*ast.CallExpr); ok {
				if id, ok := call.Fun.(*ast.Ident); ok && id.Name == "append" && len(call.Args) > 0 && types.ExprString(call.Args[0]) == types.ExprString(lhs) {
					return true
				}
			}
		}
		return false
	}
	ast.Inspect(fi.Decl.Body, func(n ast.Node) bool {
		switch s := n.(type) {
		case *ast.AssignStmt:
			for i, l := range s.Lhs {
				if se, ok := l.(*ast.SelectorExpr); ok && se.Sel.Name == name && i < len(s.Rhs) {
					if !okExpr(l, s.Rhs[i]) {
						out = append(out, fmt.Sprintf("%s = %s (%s)", types.ExprString(l), types.ExprString(s.Rhs[i]), pos(s)))
					}
				}
				// x.F[i] = v with v a map, slice or pointer: every element must get an object of its own - a fresh
				// expression (literal, make, &T{}, a call) or a variable declared in the same block as the store; a
				// variable from an enclosing scope is one object shared by all the elements it is stored into
				if ix, ok := l.(*ast.IndexExpr); ok && i < len(s.Rhs) {
					if se, ok := ast.Unparen(ix.X).(*ast.SelectorExpr); ok && se.Sel.Name == name {
						switch info.TypeOf(s.Rhs[i]).Underlying().(type) {
						case *types.Map, *types.Slice, *types.Pointer:
							if id, isId := ast.Unparen(s.Rhs[i]).(*ast.Ident); isId {
								if obj := info.Uses[id]; obj != nil && sharedAcrossIterations(fi, obj, s) {
									out = append(out, fmt.Sprintf("%s = %s: %s is declared outside the loop of the store, all elements share it (%s)", types.ExprString(l), id.Name, id.Name, pos(s)))
								}
							}
						}
					}
				}
			}
		case *ast.KeyValueExpr:
			if id, ok := s.Key.(*ast.Ident); ok && id.Name == name {
				if _, isSlice := info.TypeOf(s.Value).Underlying().(*types.Slice); isSlice && !okExpr(nil, s.Value) {
					out = append(out, fmt.Sprintf("%s: %s (%s)", name, types.ExprString(s.Value), pos(s)))
				}
				// T{F: v} built inside a loop with v a map or pointer declared outside that loop: one object shared
				// by the values of all iterations
				switch info.TypeOf(s.Value).Underlying().(type) {
				case *types.Map, *types.Pointer:
					if vid, isId := ast.Unparen(s.Value).(*ast.Ident); isId {
						if obj := info.Uses[vid]; obj != nil && sharedAcrossIterations(fi, obj, s) {
							out = append(out, fmt.Sprintf("%s: %s: %s is declared outside the loop that builds the value, all iterations share it (%s)", name, vid.Name, vid.Name, pos(s)))
						}
					}
				}
			}
		}
		return true
	})
	return out
}

// OpenWithoutDeferredClose: typestate rule for handle release (C10).  Every statement of the form
//   if err := recv.<open>(); err != nil { ... }
// must be followed, as the very next statement of the same block, by `defer recv.<close>()`: then the handle obtained by
// a successful open is released on every exit (return, panic) of the method.  Returns the offending positions.
func OpenWithoutDeferredClose(fi *FuncInfo, open, close string) []string {
	var out []string
	isCallTo := func(e ast.Expr, name string) bool {
		call, ok := e.(*ast.CallExpr)
		if !ok {
			return false
		}
		se, ok := call.Fun.(*ast.SelectorExpr)
		return ok && se.Sel.Name == name
	}
	var walk func(list []ast.Stmt)
	walk = func(list []ast.Stmt) {
		for i, s := range list {
			if ifs, ok := s.(*ast.IfStmt); ok && ifs.Init != nil {
				if as, ok := ifs.Init.(*ast.AssignStmt); ok && len(as.Rhs) == 1 && isCallTo(as.Rhs[0], open) {
					okNext := false
					if i+1 < len(list) {
						if d, ok := list[i+1].(*ast.DeferStmt); ok && isCallTo(d.Call, close) {
							okNext = true
						}
					}
					if !okNext {
						ps := fi.Pkg.Fset.Position(s.Pos())
						out = append(out, fmt.Sprintf("%s:%d", relFile(ps.Filename), ps.Line))
					}
				}
			}
			ast.Inspect(s, func(n ast.Node) bool {
				switch b := n.(type) {
				case *ast.BlockStmt:
					if n != s {
						walk(b.List)
						return false
					}
				case *ast.CaseClause:
					walk(b.Body)
					return false
				case *ast.FuncLit:
					return false
				}
				return true
			})
			if b, ok := s.(*ast.BlockStmt); ok {
				walk(b.List)
			}
		}
	}
	if fi.Decl.Body != nil {
		walk(fi.Decl.Body.List)
	}
	return out
}

// OnDirectCycle: fi can reach itself through statically resolved calls between module functions (interface
// dispatch is not followed).  Such functions need a recursion measure for termination.
func (p *Program) OnDirectCycle(fi *FuncInfo) bool {
	if p.dcg == nil {
		dcg := map[string][]string{}
		for k, f := range p.Funcs {
			if f.Decl.Body == nil || strings.HasSuffix(f.File, "_test.go") {
				continue
			}
			info := f.Pkg.TypesInfo
			seen := map[string]bool{}
			ast.Inspect(f.Decl.Body, func(n ast.Node) bool {
				var fn *types.Func
				switch e := n.(type) {
				case *ast.Ident:
					fn, _ = info.Uses[e].(*types.Func)
				case *ast.SelectorExpr:
					if sel, ok := info.Selections[e]; ok && sel.Kind() == types.MethodVal {
						fn, _ = sel.Obj().(*types.Func)
					}
				}
				if fn != nil {
					if cfi := p.ByObj[fn]; cfi != nil && !seen[cfi.Key] {
						seen[cfi.Key] = true
						dcg[k] = append(dcg[k], cfi.Key)
					}
				}
				return true
			})
		}
		p.dcg = dcg
	}
	seen := map[string]bool{}
	stack := append([]string{}, p.dcg[fi.Key]...)
	for len(stack) > 0 {
		k := stack[len(stack)-1]
		stack = stack[:len(stack)-1]
		if k == fi.Key {
			return true
		}
		if seen[k] {
			continue
		}
		seen[k] = true
		stack = append(stack, p.dcg[k]...)
	}
	return false
}

// ---------------------------------------------------------------------
// Inferred field frames: which functions can write a given struct field.
//
// A function is a DIRECT writer of field f when
//   - f occurs on the path of an assignment / inc-dec target (x.f = .., x.f.g = .., x.f[i] = ..), or under &; or
//   - f is not of scalar (basic) type and the function, not being syntactically read-only, mentions f at all
//     (a reference-typed field can be written through any copy of it, a struct-typed one through a method); or
//   - it stores a whole struct of f's type through a pointer (*p = v), or hands a pointer to such a struct to a
//     function outside the module (which may write it by reflection).
// A function MAY write f when it reaches a direct writer in the (interface-aware, over-approximate) call graph.
// Under the ownership assumption (A-alias) a callee that may not write f leaves x.f unchanged.

type fieldWriters struct {
	byField map[*types.Var]map[string]bool
	whole   map[*types.TypeName]map[string]bool
	reach   map[string]map[string]bool
	// calls through function values: a function that makes one may run any closure literal (attributed to the
	// function containing it) or any function referenced as a value
	dynCaller map[string]bool
	dynTarget []string
	extra     map[string][]string // edges to and from closure-literal nodes
}

func (p *Program) buildFieldWriters() *fieldWriters {
	if p.fw != nil {
		return p.fw
	}
	fw := &fieldWriters{byField: map[*types.Var]map[string]bool{}, whole: map[*types.TypeName]map[string]bool{}, reach: map[string]map[string]bool{},
		dynCaller: map[string]bool{}, extra: map[string][]string{}}
	dynT := map[string]bool{}
	mark := func(f *types.Var, k string) {
		if fw.byField[f] == nil {
			fw.byField[f] = map[string]bool{}
		}
		fw.byField[f][k] = true
	}
	markWhole := func(t types.Type, k string) {
		if pt, ok := t.Underlying().(*types.Pointer); ok {
			t = pt.Elem()
		}
		if n, ok := t.(*types.Named); ok {
			if _, isStruct := n.Underlying().(*types.Struct); isStruct {
				if fw.whole[n.Obj()] == nil {
					fw.whole[n.Obj()] = map[string]bool{}
				}
				fw.whole[n.Obj()][k] = true
			}
		}
	}
	for key, fi := range p.Funcs {
		if fi.Decl.Body == nil || strings.HasSuffix(fi.File, "_test.go") {
			continue
		}
		info := fi.Pkg.TypesInfo
		fi := fi
		var scan func(k string, node ast.Node, ro bool)
		scan = func(k string, node ast.Node, ro bool) {
			var pathFields func(e ast.Expr)
			pathFields = func(e ast.Expr) {
				switch e := ast.Unparen(e).(type) {
				case *ast.SelectorExpr:
					if sel, ok := info.Selections[e]; ok && sel.Kind() == types.FieldVal {
						if f, ok := sel.Obj().(*types.Var); ok {
							mark(f, k)
						}
					}
					pathFields(e.X)
				case *ast.IndexExpr:
					pathFields(e.X)
				case *ast.StarExpr:
					if t := info.TypeOf(e); t != nil {
						markWhole(t, k)
					}
					pathFields(e.X)
				case *ast.SliceExpr:
					pathFields(e.X)
				}
			}
			inCallPos := map[*ast.Ident]bool{}
			ast.Inspect(node, func(n ast.Node) bool {
				switch s := n.(type) {
				case *ast.FuncLit:
					if ast.Node(s) == node {
						return true
					}
					// closure literal: its own node (it may run inside any callee that calls through a function value)
					lk := key + "$lit"
					dynT[lk] = true
					fw.extra[k] = append(fw.extra[k], lk)
					fw.extra[lk] = append(fw.extra[lk], p.calleesIn(fi, s.Body)...)
					scan(lk, s, false)
					return false
				case *ast.Ident:
					if fn, ok := info.Uses[s].(*types.Func); ok && !inCallPos[s] {
						if cfi := p.ByObj[fn]; cfi != nil {
							dynT[cfi.Key] = true
						}
					}
				case *ast.AssignStmt:
					for _, l := range s.Lhs {
						pathFields(l)
					}
				case *ast.IncDecStmt:
					pathFields(s.X)
				case *ast.RangeStmt:
					if s.Tok == token.ASSIGN {
						if s.Key != nil {
							pathFields(s.Key)
						}
						if s.Value != nil {
							pathFields(s.Value)
						}
					}
				case *ast.UnaryExpr:
					if s.Op == token.AND {
						pathFields(s.X)
					}
				case *ast.SelectorExpr:
					if sel, ok := info.Selections[s]; ok && sel.Kind() == types.FieldVal && !ro {
						if f, ok := sel.Obj().(*types.Var); ok {
							if _, scalar := f.Type().Underlying().(*types.Basic); !scalar {
								mark(f, k)
							}
						}
					}
				case *ast.CallExpr:
					var fn *types.Func
					switch c := ast.Unparen(s.Fun).(type) {
					case *ast.Ident:
						fn, _ = info.Uses[c].(*types.Func)
						inCallPos[c] = true
					case *ast.SelectorExpr:
						fn, _ = info.Uses[c.Sel].(*types.Func)
						inCallPos[c.Sel] = true
					}
					if fn == nil {
						if tv, ok := info.Types[s.Fun]; ok && !tv.IsType() && !tv.IsBuiltin() {
							if _, isLit := ast.Unparen(s.Fun).(*ast.FuncLit); !isLit {
								fw.dynCaller[k] = true
							}
						}
					}
					if fn != nil {
						if _, inMod := p.ByObj[fn]; inMod {
							return true
						}
					}
					if tv, ok := info.Types[s.Fun]; ok && tv.IsType() {
						return true // conversion
					}
					for _, a := range s.Args {
						if t := info.TypeOf(a); t != nil {
							if _, isPtr := t.Underlying().(*types.Pointer); isPtr {
								markWhole(t, k)
							}
						}
					}
				}
				return true
			})
		}
		scan(key, fi.Decl.Body, p.IsReadonly(fi))
	}
	for k := range dynT {
		fw.dynTarget = append(fw.dynTarget, k)
	}
	sort.Strings(fw.dynTarget)
	p.fw = fw
	return fw
}

func (p *Program) reachable(from string) map[string]bool {
	fw := p.buildFieldWriters()
	if r, ok := fw.reach[from]; ok {
		return r
	}
	cg := p.CallGraph()
	seen := map[string]bool{from: true}
	stack := []string{from}
	for len(stack) > 0 {
		k := stack[len(stack)-1]
		stack = stack[:len(stack)-1]
		for _, t := range append(append([]string{}, cg[k]...), fw.extra[k]...) {
			if !seen[t] {
				seen[t] = true
				stack = append(stack, t)
			}
		}
		if fw.dynCaller[k] && !seen["$dynamic"] {
			seen["$dynamic"] = true
			for _, t := range fw.dynTarget {
				if !seen[t] {
					seen[t] = true
					stack = append(stack, t)
				}
			}
		}
	}
	fw.reach[from] = seen
	return seen
}

// MayWriteField: fi, or anything it can call, is a direct writer of field f of struct type owner.
func (p *Program) MayWriteField(fi *FuncInfo, owner *types.TypeName, f *types.Var) bool {
	fw := p.buildFieldWriters()
	r := p.reachable(fi.Key)
	for k := range fw.byField[f] {
		if r[k] {
			return true
		}
	}
	if owner != nil {
		for k := range fw.whole[owner] {
			if r[k] {
				return true
			}
		}
	}
	return false
}

// WhyReach prints one call path from -> to in the graph used for inferred field frames (debugging aid).
func (p *Program) WhyReach(from, to string) []string {
	fw := p.buildFieldWriters()
	cg := p.CallGraph()
	prev := map[string]string{from: ""}
	queue := []string{from}
	for len(queue) > 0 {
		k := queue[0]
		queue = queue[1:]
		if k == to {
			var path []string
			for c := to; c != ""; c = prev[c] {
				path = append([]string{c}, path...)
			}
			return path
		}
		next := append(append([]string{}, cg[k]...), fw.extra[k]...)
		if fw.dynCaller[k] {
			for _, t := range fw.dynTarget {
				next = append(next, t+" (via function value)")
			}
		}
		for _, t := range next {
			tt := strings.TrimSuffix(t, " (via function value)")
			if _, ok := prev[tt]; !ok {
				prev[tt] = k
				queue = append(queue, tt)
			}
		}
	}
	return nil
}

func isHTMLNode(t types.Type) bool {
	n, ok := t.(*types.Named)
	return ok && n.Obj().Pkg() != nil && n.Obj().Pkg().Path() == "golang.org/x/net/html" && n.Obj().Name() == "Node"
}

// declaredInSameBlock: obj is declared by a statement of the innermost block that contains stmt.
func declaredInSameBlock(fi *FuncInfo, obj types.Object, stmt ast.Stmt) bool {
	var blocks []*ast.BlockStmt
	var found *ast.BlockStmt
	ast.Inspect(fi.Decl.Body, func(n ast.Node) bool {
		if found != nil {
			return false
		}
		if b, ok := n.(*ast.BlockStmt); ok {
			for _, st := range b.List {
				if st == stmt {
					found = b
					return false
				}
			}
			blocks = append(blocks, b)
		}
		return true
	})
	if found == nil {
		return false
	}
	return found.Pos() <= obj.Pos() && obj.Pos() < found.End()
}

// sharedAcrossIterations: node lies inside a loop body and obj (a variable) is declared outside the innermost such loop.
func sharedAcrossIterations(fi *FuncInfo, obj types.Object, node ast.Node) bool {
	if _, isVar := obj.(*types.Var); !isVar {
		return false
	}
	var inner *ast.BlockStmt
	ast.Inspect(fi.Decl.Body, func(n ast.Node) bool {
		var body *ast.BlockStmt
		switch l := n.(type) {
		case *ast.ForStmt:
			body = l.Body
		case *ast.RangeStmt:
			body = l.Body
		}
		if body != nil && body.Pos() <= node.Pos() && node.End() <= body.End() {
			inner = body // later (nested) matches overwrite earlier ones: the innermost wins
		}
		return true
	})
	if inner == nil {
		return false
	}
	return !(inner.Pos() <= obj.Pos() && obj.Pos() < inner.End())
}
