package vc

import (
	"regexp"
	"strings"
	"fmt"
	"go/ast"
	"go/types"
)

type csFrame struct {
	list []ast.Stmt
	idx  int
}

// VerifyCallsites: verification of call-site contracts (D6) for functions that are too large for a full contract.
// For every call of the named callee inside the function, the statements that precede the call in each enclosing
// block are executed from an ARBITRARY state (every variable unconstrained; loops entered at an arbitrary iteration;
// statements outside the subset havoc what they assign) and the clause is asserted on the actual arguments.
// An arbitrary start state over-approximates every real state, so a discharged obligation holds for all executions.
func VerifyCallsites(p *Program, fc *FuncContract, prop string) (u *Unit) {
	u = &Unit{Name: fc.Key(), Kind: "func", File: relFile(fc.File), Props: fc.Props, Contract: fc}
	w := NewWorld()
	u.World = w
	fi := p.Funcs[fc.Key()]
	if fi == nil || fi.Decl.Body == nil {
		u.Err = "attach: function " + fc.Key() + " not found in the repository"
		return u
	}
	x := NewExec(p, w, prop+"/"+fc.Key())
	x.safety = false
	defer func() {
		if r := recover(); r != nil {
			if us, ok := r.(Unsupported); ok {
				u.Err = "outside subset: " + us.Msg
				return
			}
			panic(r)
		}
	}()
	x.cx = x.newCtx(fi, nil)
	for _, cs := range fc.Callsite {
		found := 0
		var walk func(list []ast.Stmt, outer []csFrame)
		var walkStmt func(s ast.Stmt, frames []csFrame)
		leaf := func(n ast.Node, frames []csFrame) {
			if n == nil {
				return
			}
			ast.Inspect(n, func(n ast.Node) bool {
				switch fl := n.(type) {
				case *ast.FuncLit:
					// a closure may run at any time after its creation: its body is checked from an arbitrary state
					// of the captured variables (no outer frames, so nothing of the enclosing function is assumed)
					walk(fl.Body.List, nil)
					return false
				case *ast.BlockStmt, *ast.CaseClause, *ast.CommClause:
					return false
				}
				call, ok := n.(*ast.CallExpr)
				if !ok {
					return true
				}
				fn := x.calleeOf(call)
				if fn == nil || (p.KeyOf(fn) != cs.Callee && fn.Name() != cs.Callee) {
					return true
				}
				found++
				x.verifyOneCallsite(fi, cs, call, frames, found)
				return true
			})
		}
		walkStmt = func(s ast.Stmt, frames []csFrame) {
			switch s := s.(type) {
			case *ast.BlockStmt:
				walk(s.List, frames)
			case *ast.IfStmt:
				leaf(s.Init, frames)
				leaf(s.Cond, frames)
				walk(s.Body.List, frames)
				if s.Else != nil {
					walkStmt(s.Else, frames)
				}
			case *ast.ForStmt:
				leaf(s.Init, frames)
				leaf(s.Cond, frames)
				leaf(s.Post, frames)
				walk(s.Body.List, frames)
			case *ast.RangeStmt:
				leaf(s.X, frames)
				walk(s.Body.List, frames)
			case *ast.SwitchStmt:
				leaf(s.Init, frames)
				leaf(s.Tag, frames)
				for _, c := range s.Body.List {
					walk(c.(*ast.CaseClause).Body, frames)
				}
			case *ast.TypeSwitchStmt:
				for _, c := range s.Body.List {
					walk(c.(*ast.CaseClause).Body, frames)
				}
			case *ast.LabeledStmt:
				walkStmt(s.Stmt, frames)
			default:
				leaf(s, frames)
			}
		}
		walk = func(list []ast.Stmt, outer []csFrame) {
			for i, s := range list {
				fr := append(append([]csFrame{}, outer...), csFrame{list, i})
				walkStmt(s, fr)
			}
		}
		walk(fi.Decl.Body.List, nil)
		if found == 0 {
			if strings.TrimSpace(cs.Clause.Text) == "false" || strings.HasSuffix(strings.TrimSpace(cs.Clause.Text), ": false") {
				// a prohibition (`requires false`): the callee must not be called at all, and it is not
				o := w.Oblige(x.oblName("callsite:"+cs.Callee+"/never-called", ""), "frame", True, True)
				o.Preset, o.Solver, o.Result = true, "callsite-scan", "unsat"
				continue
			}
			u.Err = fmt.Sprintf("attach: no call of %s found in %s", cs.Callee, fc.Key())
			return u
		}
	}
	return u
}

var identRe = regexp.MustCompile(`[A-Za-z_][A-Za-z0-9_]*`)

func (x *Exec) verifyOneCallsite(fi *FuncInfo, cs CallsiteClause, call *ast.CallExpr, frames []csFrame, ord int) {
	info := fi.Pkg.TypesInfo
	cx := x.newCtx(fi, nil)
	x.cx = cx
	env := &Env{vars: map[types.Object]Term{}, pc: True}
	bind := func(n ast.Node) {
		ast.Inspect(n, func(n ast.Node) bool {
			if id, ok := n.(*ast.Ident); ok {
				if v, ok := info.Uses[id].(*types.Var); ok && !v.IsField() && v.Pkg() != nil && v.Parent() != v.Pkg().Scope() {
					if _, have := env.vars[v]; !have {
						env.vars[v] = x.fresh(v.Name(), v.Type())
					}
				}
			}
			return true
		})
	}
	for _, fr := range frames {
		for i := 0; i <= fr.idx && i < len(fr.list); i++ {
			bind(fr.list[i])
		}
	}
	x.quiet++
	defer func() { x.quiet-- }()
	// backward slice: only statements that (transitively) assign variables the call's arguments depend on are executed;
	// skipping a statement considers more paths and leaves its targets unconstrained only if they are irrelevant.
	needed := map[types.Object]bool{}
	usesOf := func(n ast.Node) {
		ast.Inspect(n, func(n ast.Node) bool {
			if id, ok := n.(*ast.Ident); ok {
				if v, ok := info.Uses[id].(*types.Var); ok && !v.IsField() {
					needed[v] = true
				}
			}
			return true
		})
	}
	for _, a := range call.Args {
		usesOf(a)
	}
	// variables the clause itself names (e.g. a guard `if tooDeep(doc) { return }` before a call that does not take doc)
	clauseNames := map[string]bool{}
	for _, m := range identRe.FindAllString(cs.Clause.Text, -1) {
		clauseNames[m] = true
	}
	for v := range env.vars {
		if clauseNames[v.Name()] {
			needed[v] = true
		}
	}
	// an early exit guarded by a needed variable restricts the paths that reach the call
	guardsNeeded := func(st ast.Stmt) bool {
		is, ok := st.(*ast.IfStmt)
		if !ok || is.Else != nil || len(is.Body.List) == 0 {
			return false
		}
		if _, isRet := is.Body.List[len(is.Body.List)-1].(*ast.ReturnStmt); !isRet {
			return false
		}
		hit := false
		ast.Inspect(is.Cond, func(n ast.Node) bool {
			if id, ok := n.(*ast.Ident); ok {
				if v, ok := info.Uses[id].(*types.Var); ok && needed[v] && clauseNames[v.Name()] {
					hit = true
				}
			}
			return true
		})
		return hit
	}
	relevant := map[ast.Stmt]bool{}
	for k := len(frames) - 1; k >= 0; k-- {
		fr := frames[k]
		if k < len(frames)-1 {
			// guards of the enclosing statement are assumed on entry: their variables are needed
			switch st := fr.list[fr.idx].(type) {
			case *ast.IfStmt:
				for cur := st; cur != nil; {
					usesOf(cur.Cond)
					if cur.Init != nil {
						usesOf(cur.Init)
					}
					next, _ := cur.Else.(*ast.IfStmt)
					cur = next
				}
			}
		}
		for i := fr.idx - 1; i >= 0; i-- {
			st := fr.list[i]
			hit := false
			for o := range assignedVars(info, st, nil) {
				if needed[o] {
					hit = true
				}
			}
			if !hit && guardsNeeded(st) {
				hit = true
			}
			if hit {
				relevant[st] = true
				usesOf(st)
			}
		}
	}
	for k, fr := range frames {
		for i := 0; i < fr.idx; i++ {
			if !relevant[fr.list[i]] {
				continue
			}
			env = x.execTolerant(fr.list[i], env, info)
			if env == nil {
				// the abstraction says the call is unreachable: nothing to prove, but record it
				x.W.Note("call site unreachable in the block-local abstraction")
				o := x.W.Oblige(x.prefix+fmt.Sprintf("/callsite:%s#%d/%s", types.ExprString(call.Fun), ord, clauseName(cs.Clause, 0)), "callsite", True, True)
				o.Preset, o.Result, o.Solver = true, "unsat", "unreachable"
				return
			}
		}
		if k < len(frames)-1 {
			env = x.enterNested(fr.list[fr.idx], frames[k+1].list, env, info)
			if env == nil {
				return
			}
		}
	}
	fn := x.calleeOf(call)
	sig := fn.Type().(*types.Signature)
	sc := x.scopeAt(env, call.Pos())
	for i, pn := range cs.Params {
		if i < len(call.Args) {
			var pt types.Type
			if i < sig.Params().Len() {
				pt = sig.Params().At(i).Type()
			}
			sc.locals[pn] = x.evalAs(call.Args[i], env, pt)
		}
	}
	goal := sc.EvalBool(cs.Clause.Expr)
	name := fmt.Sprintf("callsite:%s#%d/%s", fn.Name(), ord, clauseName(cs.Clause, 0))
	x.W.Oblige(x.prefix+"/"+name, "callsite", env.pc, goal)
	x.W.AddFact(env.pc, goal)
}

// execTolerant executes a statement; constructs outside the subset havoc what the statement may assign.
func (x *Exec) execTolerant(s ast.Stmt, env *Env, info *types.Info) (out *Env) {
	snapshot := env.clone()
	savedRets, savedFrames := x.cx.rets, x.cx.frames
	defer func() {
		x.cx.rets, x.cx.frames = savedRets, savedFrames
		if r := recover(); r != nil {
			if _, ok := r.(Unsupported); ok {
				for o := range assignedVars(info, s, nil) {
					if _, have := snapshot.vars[o]; have {
						snapshot.vars[o] = x.fresh(o.Name(), o.Type())
					}
				}
				x.W.Note("statement abstracted in call-site context (assigned variables havocked)")
				out = snapshot
				return
			}
			panic(r)
		}
	}()
	// break/continue/return in the prefix end those paths; only the fall-through state reaches the call
	x.cx.frames = append(x.cx.frames, &frame{kind: "loop"})
	return x.execStmt(s, env, "")
}

// enterNested refines env with the condition under which control enters the nested statement list inner of stmt.
func (x *Exec) enterNested(stmt ast.Stmt, inner []ast.Stmt, env *Env, info *types.Info) (out *Env) {
	defer func() {
		if r := recover(); r != nil {
			if _, ok := r.(Unsupported); ok {
				out = env
				return
			}
			panic(r)
		}
	}()
	sameList := func(a, b []ast.Stmt) bool { return len(a) > 0 && len(b) > 0 && a[0] == b[0] }
	havocAssigned := func() {
		for o := range assignedVars(info, stmt, nil) {
			if _, have := env.vars[o]; have {
				env.vars[o] = x.fresh(o.Name(), o.Type())
			}
		}
	}
	switch s := stmt.(type) {
	case *ast.LabeledStmt:
		return x.enterNested(s.Stmt, inner, env, info)
	case *ast.IfStmt:
		cur := s
		e := env
		for {
			if cur.Init != nil {
				e = x.execTolerant(cur.Init, e, info)
				if e == nil {
					return nil
				}
			}
			c := x.eval(cur.Cond, e)
			if sameList(cur.Body.List, inner) {
				return x.branch(e, c)
			}
			e = x.branch(e, Not(c))
			switch el := cur.Else.(type) {
			case *ast.IfStmt:
				cur = el
				continue
			}
			return e
		}
	case *ast.ForStmt, *ast.RangeStmt:
		// loop body entered at an arbitrary iteration
		havocAssigned()
		if rs, ok := stmt.(*ast.RangeStmt); ok {
			for _, e := range []ast.Expr{rs.Key, rs.Value} {
				if id, ok := e.(*ast.Ident); ok && id.Name != "_" {
					if o := info.Defs[id]; o != nil {
						env.vars[o] = x.fresh(o.Name(), o.Type())
					}
				}
			}
		}
		if fs, ok := stmt.(*ast.ForStmt); ok && fs.Init != nil {
			if as, ok := fs.Init.(*ast.AssignStmt); ok {
				for _, l := range as.Lhs {
					if id, ok := l.(*ast.Ident); ok {
						if o := info.Defs[id]; o != nil {
							env.vars[o] = x.fresh(o.Name(), o.Type())
						}
					}
				}
			}
		}
		return env
	case *ast.SwitchStmt, *ast.TypeSwitchStmt:
		// case bodies: variables bound by the switch are unconstrained; the case guard is not assumed
		ast.Inspect(stmt, func(n ast.Node) bool {
			if cc, ok := n.(*ast.CaseClause); ok {
				if o := info.Implicits[cc]; o != nil {
					env.vars[o] = x.fresh(o.Name(), o.Type())
				}
			}
			return true
		})
		if sw, ok := stmt.(*ast.SwitchStmt); ok && sw.Init != nil {
			return x.execTolerant(sw.Init, env, info)
		}
		return env
	}
	return env
}
