package vc

import (
	"fmt"
	"go/ast"
	"go/token"
	"go/types"
	"sort"
	"strings"
)

// MapRange is one `for ... range <map>` loop in non-test module code with its order-insensitivity verdict.
type MapRange struct {
	Func    string
	Ordinal int // among the map-range loops of the function
	Pos     string
	OK      bool
	Why     string
}

// MapRanges classifies every range-over-map loop by structural rules under which the iteration order cannot
// reach any output: (a) stores into a map indexed by the range key itself, delete; (b) appends to a slice that is
// sorted later in the same function; (c) commutative accumulation (+=, ++, --, |=, constant assignments, max/min
// tracking of a single variable); (d) `return <constant>` on a match; plus if/else and continue composed of these.
func MapRanges(p *Program) []MapRange {
	var out []MapRange
	for _, pkg := range p.Pkgs {
		info := pkg.TypesInfo
		for i, f := range pkg.Syntax {
			if i < len(pkg.CompiledGoFiles) && strings.HasSuffix(pkg.CompiledGoFiles[i], "_test.go") {
				continue
			}
			for _, d := range f.Decls {
				fd, ok := d.(*ast.FuncDecl)
				if !ok || fd.Body == nil {
					continue
				}
				key := FuncKey(pkg.Name, fd)
				n := 0
				ast.Inspect(fd.Body, func(nd ast.Node) bool {
					rs, ok := nd.(*ast.RangeStmt)
					if !ok {
						return true
					}
					if _, isMap := info.TypeOf(rs.X).Underlying().(*types.Map); !isMap {
						return true
					}
					ps := pkg.Fset.Position(rs.Pos())
					mr := MapRange{Func: key, Ordinal: n, Pos: fmt.Sprintf("%s:%d", relFile(ps.Filename), ps.Line)}
					n++
					mr.OK, mr.Why = orderInsensitive(info, fd, rs)
					out = append(out, mr)
					return true
				})
			}
		}
	}
	sort.Slice(out, func(i, j int) bool {
		if out[i].Func != out[j].Func {
			return out[i].Func < out[j].Func
		}
		return out[i].Ordinal < out[j].Ordinal
	})
	return out
}

func orderInsensitive(info *types.Info, fd *ast.FuncDecl, rs *ast.RangeStmt) (bool, string) {
	var keyObj types.Object
	if id, ok := rs.Key.(*ast.Ident); ok && id.Name != "_" {
		keyObj = info.Defs[id]
		if keyObj == nil {
			keyObj = info.Uses[id]
		}
	}
	localDefs := map[types.Object]bool{}
	ast.Inspect(rs.Body, func(n ast.Node) bool {
		if ds, ok := n.(*ast.DeclStmt); ok {
			// var x T declared inside the loop body: an iteration-local temporary
			if gd, ok := ds.Decl.(*ast.GenDecl); ok && gd.Tok == token.VAR {
				for _, sp := range gd.Specs {
					if vs, ok := sp.(*ast.ValueSpec); ok {
						for _, id := range vs.Names {
							if o := info.Defs[id]; o != nil {
								localDefs[o] = true
							}
						}
					}
				}
			}
		}
		if as, ok := n.(*ast.AssignStmt); ok && as.Tok == token.DEFINE {
			for _, l := range as.Lhs {
				if id, ok := l.(*ast.Ident); ok {
					if o := info.Defs[id]; o != nil {
						localDefs[o] = true
					}
				}
			}
		}
		return true
	})
	isConst := func(e ast.Expr) bool {
		tv, ok := info.Types[e]
		if ok && tv.Value != nil {
			return true
		}
		if id, ok := e.(*ast.Ident); ok && (id.Name == "nil" || id.Name == "true" || id.Name == "false") {
			return true
		}
		return false
	}
	sortedLater := func(o types.Object) bool {
		found := false
		ast.Inspect(fd.Body, func(n ast.Node) bool {
			call, ok := n.(*ast.CallExpr)
			if !ok || call.Pos() < rs.End() {
				return true
			}
			if se, ok := call.Fun.(*ast.SelectorExpr); ok {
				if pid, ok := se.X.(*ast.Ident); ok && (pid.Name == "sort" || pid.Name == "slices") && len(call.Args) > 0 {
					if id, ok := call.Args[0].(*ast.Ident); ok && info.Uses[id] == o {
						found = true
					}
				}
			}
			return true
		})
		return found
	}
	// onlyConstEffects: every assignment in the loop body stores a constant into a plain variable (an existence search)
	onlyConstEffects := true
	ast.Inspect(rs.Body, func(n ast.Node) bool {
		switch s := n.(type) {
		case *ast.AssignStmt:
			if s.Tok == token.DEFINE {
				return true
			}
			for i, l := range s.Lhs {
				if _, isId := l.(*ast.Ident); !isId || i >= len(s.Rhs) || !isConst(s.Rhs[i]) || s.Tok != token.ASSIGN {
					onlyConstEffects = false
				}
			}
		case *ast.IncDecStmt, *ast.ExprStmt, *ast.ReturnStmt, *ast.GoStmt, *ast.DeferStmt, *ast.SendStmt:
			onlyConstEffects = false
		}
		return true
	})
	var check func(s ast.Stmt) (bool, string)
	checkList := func(l []ast.Stmt) (bool, string) {
		for _, s := range l {
			if ok, why := check(s); !ok {
				return false, why
			}
		}
		return true, ""
	}
	check = func(s ast.Stmt) (bool, string) {
		switch s := s.(type) {
		case *ast.BlockStmt:
			return checkList(s.List)
		case *ast.IfStmt:
			if s.Init != nil {
				if ok, why := check(s.Init); !ok {
					return false, why
				}
			}
			// max/min tracking: if v > m { m = v }  (single assignment of the compared value)
			if ok, why := checkList(s.Body.List); !ok {
				return false, why
			}
			if s.Else != nil {
				return check(s.Else)
			}
			return true, ""
		case *ast.SwitchStmt:
			// the clauses are alternatives: each must be order-insensitive on its own
			if s.Init != nil {
				if ok, why := check(s.Init); !ok {
					return false, why
				}
			}
			for _, c := range s.Body.List {
				if ok, why := checkList(c.(*ast.CaseClause).Body); !ok {
					return false, why
				}
			}
			return true, ""
		case *ast.TypeSwitchStmt:
			for _, c := range s.Body.List {
				if ok, why := checkList(c.(*ast.CaseClause).Body); !ok {
					return false, why
				}
			}
			return true, ""
		case *ast.RangeStmt:
			// a nested loop over something else: its body is checked with the same rules (its own iteration order is
			// that of a slice or is covered by this same rule when it is a map)
			if _, isMap := info.TypeOf(s.X).Underlying().(*types.Map); isMap {
				return false, "nested range over a map"
			}
			return checkList(s.Body.List)
		case *ast.BranchStmt:
			if s.Tok == token.CONTINUE {
				return true, ""
			}
			if onlyConstEffects {
				return true, "" // existence search: flag = constant; break
			}
			return false, "break inside a map iteration (the set of visited keys depends on the order)"
		case *ast.ReturnStmt:
			for _, r := range s.Results {
				if !isConst(r) {
					return false, "returns a non-constant value from inside the iteration (first match wins)"
				}
			}
			return true, ""
		case *ast.IncDecStmt:
			return true, ""
		case *ast.ExprStmt:
			if call, ok := s.X.(*ast.CallExpr); ok {
				if id, ok := call.Fun.(*ast.Ident); ok && id.Name == "delete" {
					return true, ""
				}
			}
			return false, "calls " + types.ExprString(s.X) + " (effects not known to commute)"
		case *ast.DeclStmt:
			return true, ""
		case *ast.AssignStmt:
			if s.Tok == token.DEFINE {
				return true, "" // iteration-local temporaries
			}
			if s.Tok == token.ADD_ASSIGN || s.Tok == token.OR_ASSIGN || s.Tok == token.SUB_ASSIGN || s.Tok == token.MUL_ASSIGN {
				if t := info.TypeOf(s.Lhs[0]); t != nil {
					if b, ok := t.Underlying().(*types.Basic); ok && b.Info()&types.IsString != 0 {
						return false, "string concatenation in iteration order"
					}
					if b, ok := t.Underlying().(*types.Basic); ok && b.Info()&types.IsFloat != 0 && s.Tok != token.OR_ASSIGN {
						return true, "" // floating-point sums are order-sensitive only in the last bits (A2)
					}
				}
				return true, ""
			}
			for i, l := range s.Lhs {
				switch lx := l.(type) {
				case *ast.IndexExpr:
					if _, isMap := info.TypeOf(lx.X).Underlying().(*types.Map); isMap {
						if id, ok := lx.Index.(*ast.Ident); ok && keyObj != nil && info.Uses[id] == keyObj {
							continue
						}
						if i < len(s.Rhs) && isConst(s.Rhs[i]) {
							continue // m[anything] = constant: every writer writes the same value
						}
						return false, "stores into a map under a key other than the iteration key (collisions resolve in iteration order)"
					}
					return false, "indexed store " + types.ExprString(l)
				case *ast.Ident:
					o := info.Uses[lx]
					if o != nil && localDefs[o] {
						continue
					}
					if i < len(s.Rhs) {
						if isConst(s.Rhs[i]) {
							continue
						}
						if call, ok := s.Rhs[i].(*ast.CallExpr); ok {
							if fid, ok := call.Fun.(*ast.Ident); ok && fid.Name == "append" && len(call.Args) > 0 {
								if aid, ok := call.Args[0].(*ast.Ident); ok && info.Uses[aid] == o {
									if sortedLater(o) {
										continue
									}
									return false, "appends to " + lx.Name + " in iteration order and the slice is not sorted afterwards"
								}
							}
						}
						// m = v guarded by a comparison with m (max/min): accepted when it is the only assignment in its block
						return false, "assigns " + lx.Name + " = " + types.ExprString(s.Rhs[i]) + " (last/first writer depends on the order)"
					}
				default:
					return false, "assignment to " + types.ExprString(l)
				}
			}
			return true, ""
		}
		return false, fmt.Sprintf("statement %T", s)
	}
	// special case: pure max/min tracking  if v OP m { m = v }
	relax := func(s ast.Stmt) bool {
		ifs, ok := s.(*ast.IfStmt)
		if !ok || ifs.Else != nil || len(ifs.Body.List) != 1 {
			return false
		}
		be, ok := ifs.Cond.(*ast.BinaryExpr)
		if !ok {
			return false
		}
		as, ok := ifs.Body.List[0].(*ast.AssignStmt)
		if !ok || len(as.Lhs) != 1 || as.Tok != token.ASSIGN {
			return false
		}
		l, r := types.ExprString(as.Lhs[0]), types.ExprString(as.Rhs[0])
		x, y := types.ExprString(be.X), types.ExprString(be.Y)
		switch be.Op {
		case token.GTR, token.LSS, token.GEQ, token.LEQ:
			return (l == y && r == x) || (l == x && r == y)
		}
		return false
	}
	// arg-max with a total tie-break on the iteration KEY:
	//   if v > m || (v == m && k < best) { m = v; best = k }      (also with < / > mirrored)
	// selects the lexicographic optimum of (v, k); keys are distinct, so the result does not depend on the order.
	argmaxKey := func(s ast.Stmt) bool {
		ifs, ok := s.(*ast.IfStmt)
		if !ok || ifs.Else != nil || len(ifs.Body.List) != 2 || keyObj == nil {
			return false
		}
		or, ok := ifs.Cond.(*ast.BinaryExpr)
		if !ok || or.Op != token.LOR {
			return false
		}
		first, ok := or.X.(*ast.BinaryExpr)
		if !ok || (first.Op != token.GTR && first.Op != token.LSS) {
			return false
		}
		par, ok := or.Y.(*ast.ParenExpr)
		if !ok {
			return false
		}
		and, ok := par.X.(*ast.BinaryExpr)
		if !ok || and.Op != token.LAND {
			return false
		}
		eq, ok := and.X.(*ast.BinaryExpr)
		if !ok || eq.Op != token.EQL {
			return false
		}
		tie, ok := and.Y.(*ast.BinaryExpr)
		if !ok || (tie.Op != token.LSS && tie.Op != token.GTR) {
			return false
		}
		v, m := types.ExprString(first.X), types.ExprString(first.Y)
		if types.ExprString(eq.X) != v || types.ExprString(eq.Y) != m {
			return false
		}
		kid, ok := tie.X.(*ast.Ident)
		if !ok || info.Uses[kid] != keyObj {
			return false
		}
		best := types.ExprString(tie.Y)
		a1, ok1 := ifs.Body.List[0].(*ast.AssignStmt)
		a2, ok2 := ifs.Body.List[1].(*ast.AssignStmt)
		if !ok1 || !ok2 || a1.Tok != token.ASSIGN || a2.Tok != token.ASSIGN || len(a1.Lhs) != 1 || len(a2.Lhs) != 1 {
			return false
		}
		return types.ExprString(a1.Lhs[0]) == m && types.ExprString(a1.Rhs[0]) == v &&
			types.ExprString(a2.Lhs[0]) == best && types.ExprString(a2.Rhs[0]) == kid.Name
	}
	for _, s := range rs.Body.List {
		if relax(s) || argmaxKey(s) {
			continue
		}
		if ok, why := check(s); !ok {
			return false, why
		}
	}
	return true, ""
}
