package vc

import (
	"fmt"
	"go/ast"
	"go/token"
	"go/types"
	"sort"
	"strings"
)

// Typestate rule for operating-system handles (C10: "after any terminal operation, successful or failed, no file handle
// remains open").
//
// For every statement `h, err := <opener>(...)` (os.Open, os.Create, os.OpenFile, zip.OpenReader) at the top level of a
// function body, every exit of the function reached after it must find the handle
//   - closed (`h.Close()` executed on the path, or `defer h.Close()` registered, directly or through an owner), or
//   - handed over: the return statement returns h itself or a value that owns it (a variable built from a composite
//     literal mentioning h, assigned a field from h, or returned by a call that received h).  Returning the results
//     of a call that merely receives h is NOT a hand-over (the callee may fail and leave nobody to close it).
// The `if err != nil { return ... }` that directly tests the opener's own error is exempt (no handle exists there).
// The analysis walks the structured statement tree (if/else, switch, loops, blocks) with one state per path; a branch
// merge keeps "closed" only if every branch that falls through has closed.  It is path-sensitive in the shape of the
// code only: conditions are not interpreted.

var handleOpeners = map[string]bool{"os.Open": true, "os.Create": true, "os.OpenFile": true, "zip.OpenReader": true}

type HandleLeak struct {
	Func   string
	Opener string
	Pos    string // position of the opener
	Leaks  []string
	Nested bool
}

type hstate struct {
	closed bool
	owners map[types.Object]bool
	errVar types.Object
	fresh  bool // the opener's own error has not been tested yet
}

func (s hstate) clone() hstate {
	o := map[types.Object]bool{}
	for k := range s.owners {
		o[k] = true
	}
	return hstate{closed: s.closed, owners: o, errVar: s.errVar, fresh: s.fresh}
}

type hwalker struct {
	fi    *FuncInfo
	info  *types.Info
	h     types.Object
	leaks []string
}

func (w *hwalker) pos(p token.Pos) string {
	ps := w.fi.Pkg.Fset.Position(p)
	return fmt.Sprintf("%s:%d", relFile(ps.Filename), ps.Line)
}

func (w *hwalker) objOf(e ast.Expr) types.Object {
	if id, ok := ast.Unparen(e).(*ast.Ident); ok {
		if o := w.info.Uses[id]; o != nil {
			return o
		}
		return w.info.Defs[id]
	}
	return nil
}

// mentions: the expression mentions the handle or one of its owners as an identifier.
func (w *hwalker) mentions(e ast.Node, st hstate) bool {
	found := false
	ast.Inspect(e, func(n ast.Node) bool {
		if id, ok := n.(*ast.Ident); ok {
			o := w.info.Uses[id]
			if o != nil && (o == w.h || st.owners[o]) {
				found = true
			}
		}
		return !found
	})
	return found
}

// transfers: like mentions, but a method call on the handle itself (h.Stat(), h.Read(...)) hands nothing over.
func (w *hwalker) transfers(e ast.Node, st hstate) bool {
	found := false
	ast.Inspect(e, func(n ast.Node) bool {
		if found {
			return false
		}
		if call, ok := n.(*ast.CallExpr); ok {
			if se, ok := call.Fun.(*ast.SelectorExpr); ok {
				if o := w.objOf(se.X); o != nil && o == w.h {
					for _, a := range call.Args {
						if w.transfers(a, st) {
							found = true
						}
					}
					return false
				}
			}
		}
		if id, ok := n.(*ast.Ident); ok {
			o := w.info.Uses[id]
			if o != nil && (o == w.h || st.owners[o]) {
				found = true
			}
		}
		return !found
	})
	return found
}

// returnsOwner: the returned expression IS the handle or a value that owns it (identifier, &identifier, composite
// literal mentioning it).  A call that merely receives the handle (`return NewReader(f)`) is not a hand-over: if the
// callee fails, nobody is left to close it.
func (w *hwalker) returnsOwner(e ast.Expr, st hstate) bool {
	switch x := ast.Unparen(e).(type) {
	case *ast.Ident:
		o := w.info.Uses[x]
		return o != nil && (o == w.h || st.owners[o])
	case *ast.UnaryExpr:
		return w.returnsOwner(x.X, st)
	case *ast.StarExpr:
		return w.returnsOwner(x.X, st)
	case *ast.CompositeLit:
		for _, el := range x.Elts {
			if kv, ok := el.(*ast.KeyValueExpr); ok {
				if w.returnsOwner(kv.Value, st) {
					return true
				}
			} else if w.returnsOwner(el, st) {
				return true
			}
		}
	}
	return false
}

func canOwn(t types.Type) bool {
	if t == nil {
		return false
	}
	switch t.Underlying().(type) {
	case *types.Basic:
		return false
	}
	return t.String() != "error"
}

// closes: the node contains a call <h or owner>.Close().
func (w *hwalker) closes(n ast.Node, st hstate) bool {
	found := false
	ast.Inspect(n, func(n ast.Node) bool {
		if call, ok := n.(*ast.CallExpr); ok {
			if se, ok := call.Fun.(*ast.SelectorExpr); ok && se.Sel.Name == "Close" {
				root := se.X
				for {
					if s2, ok := ast.Unparen(root).(*ast.SelectorExpr); ok {
						root = s2.X
						continue
					}
					break
				}
				if o := w.objOf(root); o != nil && (o == w.h || st.owners[o]) {
					found = true
				}
			}
		}
		return !found
	})
	return found
}

func rootIdent(e ast.Expr) *ast.Ident {
	for {
		switch x := ast.Unparen(e).(type) {
		case *ast.Ident:
			return x
		case *ast.SelectorExpr:
			e = x.X
		case *ast.IndexExpr:
			e = x.X
		case *ast.StarExpr:
			e = x.X
		default:
			return nil
		}
	}
}

func (w *hwalker) simple(s ast.Stmt, st *hstate) {
	switch s := s.(type) {
	case *ast.AssignStmt:
		if w.closes(s, *st) {
			st.closed = true
		}
		for _, r := range s.Rhs {
			if w.transfers(r, *st) {
				// every variable on the left that can hold a handle may now own it; a field store makes the root an owner
				for _, l := range s.Lhs {
					if id := rootIdent(l); id != nil && id.Name != "_" {
						o := w.info.Uses[id]
						if o == nil {
							o = w.info.Defs[id]
						}
						if o != nil && o != w.h && o != st.errVar && canOwn(o.Type()) {
							st.owners[o] = true
						}
					}
				}
			}
		}
		if st.errVar != nil {
			for _, l := range s.Lhs {
				if w.objOf(l) == st.errVar {
					st.fresh = false
				}
			}
		}
	case *ast.ExprStmt:
		if w.closes(s, *st) {
			st.closed = true
		}
	case *ast.DeferStmt:
		if w.closes(s, *st) {
			st.closed = true
		}
	case *ast.DeclStmt:
		if gd, ok := s.Decl.(*ast.GenDecl); ok {
			for _, sp := range gd.Specs {
				if vs, ok := sp.(*ast.ValueSpec); ok {
					for _, v := range vs.Values {
						if w.transfers(v, *st) {
							for _, nm := range vs.Names {
								if o := w.info.Defs[nm]; o != nil && canOwn(o.Type()) {
									st.owners[o] = true
								}
							}
						}
					}
				}
			}
		}
	}
}

// walk returns the state after the list and whether every path through it terminates (return/panic).
func (w *hwalker) walk(list []ast.Stmt, st hstate) (hstate, bool) {
	for _, s := range list {
		switch s := s.(type) {
		case *ast.ReturnStmt:
			if !st.closed {
				ok := false
				for _, r := range s.Results {
					if w.returnsOwner(r, st) || w.closes(r, st) {
						ok = true
					}
				}
				if !ok {
					w.leaks = append(w.leaks, w.pos(s.Pos()))
				}
			}
			return st, true
		case *ast.IfStmt:
			if s.Init != nil {
				w.simple(s.Init, &st)
			}
			// the test of the opener's own error
			if st.fresh && st.errVar != nil {
				if be, ok := ast.Unparen(s.Cond).(*ast.BinaryExpr); ok && be.Op == token.NEQ && w.objOf(be.X) == st.errVar {
					if id, isId := ast.Unparen(be.Y).(*ast.Ident); isId && id.Name == "nil" {
						st.fresh = false
						if s.Else != nil {
							if eb, ok := s.Else.(*ast.BlockStmt); ok {
								st2, term := w.walk(eb.List, st.clone())
								if term {
									// the success path continues only inside else; after the if only the error path remains
									return st2, false
								}
								st = st2
							}
						}
						continue
					}
				}
			}
			st.fresh = false
			thenSt, thenTerm := w.walk(s.Body.List, st.clone())
			elseSt, elseTerm := st.clone(), false
			switch e := s.Else.(type) {
			case *ast.BlockStmt:
				elseSt, elseTerm = w.walk(e.List, st.clone())
			case *ast.IfStmt:
				elseSt, elseTerm = w.walk([]ast.Stmt{e}, st.clone())
			}
			if thenTerm && elseTerm {
				return st, true
			}
			merged := st.clone()
			merged.closed = st.closed || ((thenTerm || thenSt.closed) && (elseTerm || elseSt.closed))
			for o := range thenSt.owners {
				merged.owners[o] = true
			}
			for o := range elseSt.owners {
				merged.owners[o] = true
			}
			st = merged
		case *ast.BlockStmt:
			st2, term := w.walk(s.List, st)
			if term {
				return st2, true
			}
			st = st2
		case *ast.ForStmt:
			st.fresh = false
			if s.Init != nil {
				w.simple(s.Init, &st)
			}
			st2, _ := w.walk(s.Body.List, st.clone())
			for o := range st2.owners {
				st.owners[o] = true
			}
		case *ast.RangeStmt:
			st.fresh = false
			st2, _ := w.walk(s.Body.List, st.clone())
			for o := range st2.owners {
				st.owners[o] = true
			}
		case *ast.SwitchStmt, *ast.TypeSwitchStmt, *ast.SelectStmt:
			st.fresh = false
			var body *ast.BlockStmt
			switch x := s.(type) {
			case *ast.SwitchStmt:
				if x.Init != nil {
					w.simple(x.Init, &st)
				}
				body = x.Body
			case *ast.TypeSwitchStmt:
				body = x.Body
			case *ast.SelectStmt:
				body = x.Body
			}
			allClosed, hasDefault, allTerm := true, false, true
			for _, c := range body.List {
				var cl []ast.Stmt
				switch cc := c.(type) {
				case *ast.CaseClause:
					cl = cc.Body
					if cc.List == nil {
						hasDefault = true
					}
				case *ast.CommClause:
					cl = cc.Body
					if cc.Comm == nil {
						hasDefault = true
					}
				}
				cs, term := w.walk(cl, st.clone())
				if !term {
					allTerm = false
					if !cs.closed {
						allClosed = false
					}
				}
				for o := range cs.owners {
					st.owners[o] = true
				}
			}
			if hasDefault && allTerm {
				return st, true
			}
			if hasDefault && allClosed {
				st.closed = true
			}
		case *ast.LabeledStmt:
			st2, term := w.walk([]ast.Stmt{s.Stmt}, st)
			if term {
				return st2, true
			}
			st = st2
		case *ast.ExprStmt:
			if call, ok := s.X.(*ast.CallExpr); ok {
				if id, ok := call.Fun.(*ast.Ident); ok && id.Name == "panic" {
					return st, true
				}
			}
			w.simple(s, &st)
		default:
			w.simple(s, &st)
		}
	}
	return st, false
}

// HandleLeaks analyses every opener statement of the module (non-test code).
func HandleLeaks(p *Program) []HandleLeak {
	var out []HandleLeak
	var keys []string
	for k, fi := range p.Funcs {
		if fi.Decl.Body != nil && !strings.HasSuffix(fi.File, "_test.go") {
			keys = append(keys, k)
		}
	}
	sort.Strings(keys)
	for _, k := range keys {
		fi := p.Funcs[k]
		info := fi.Pkg.TypesInfo
		openerOf := func(s ast.Stmt) (string, *ast.AssignStmt) {
			as, ok := s.(*ast.AssignStmt)
			if !ok || len(as.Rhs) != 1 || len(as.Lhs) < 1 {
				return "", nil
			}
			call, ok := ast.Unparen(as.Rhs[0]).(*ast.CallExpr)
			if !ok {
				return "", nil
			}
			se, ok := call.Fun.(*ast.SelectorExpr)
			if !ok {
				return "", nil
			}
			fn, _ := info.Uses[se.Sel].(*types.Func)
			if fn == nil || fn.Pkg() == nil {
				return "", nil
			}
			name := fn.Pkg().Name() + "." + fn.Name()
			if handleOpeners[name] {
				return name, as
			}
			return "", nil
		}
		top := map[ast.Stmt]bool{}
		for i, s := range fi.Decl.Body.List {
			name, as := openerOf(s)
			if as == nil {
				continue
			}
			top[s] = true
			w := &hwalker{fi: fi, info: info}
			if id, ok := as.Lhs[0].(*ast.Ident); ok {
				w.h = info.Defs[id]
				if w.h == nil {
					w.h = info.Uses[id]
				}
			}
			st := hstate{owners: map[types.Object]bool{}, fresh: true}
			if len(as.Lhs) > 1 {
				st.errVar = w.objOf(as.Lhs[1])
			}
			hl := HandleLeak{Func: k, Opener: name}
			ps := fi.Pkg.Fset.Position(s.Pos())
			hl.Pos = fmt.Sprintf("%s:%d", relFile(ps.Filename), ps.Line)
			if w.h == nil {
				hl.Leaks = []string{"handle is not bound to a variable"}
			} else {
				end, term := w.walk(fi.Decl.Body.List[i+1:], st)
				if !term && !end.closed {
					w.leaks = append(w.leaks, "end of function")
				}
				hl.Leaks = w.leaks
			}
			out = append(out, hl)
		}
		// openers that are not top-level statements are reported as not analysed
		ast.Inspect(fi.Decl.Body, func(n ast.Node) bool {
			if s, ok := n.(ast.Stmt); ok && !top[s] {
				if name, as := openerOf(s); as != nil {
					ps := fi.Pkg.Fset.Position(s.Pos())
					out = append(out, HandleLeak{Func: k, Opener: name, Pos: fmt.Sprintf("%s:%d", relFile(ps.Filename), ps.Line), Nested: true})
				}
			}
			return true
		})
	}
	return out
}

// HandleUnit: one obligation per opener statement.
func HandleUnit(p *Program, prop string) *Unit {
	u := &Unit{Name: "typestate:file-handles", Kind: "frame", File: "(whole module)", Props: []string{prop}}
	w := NewWorld()
	u.World = w
	for _, hl := range HandleLeaks(p) {
		if hl.Nested {
			w.Note(fmt.Sprintf("opener %s in %s at %s is not a top-level statement: not analysed", hl.Opener, hl.Func, hl.Pos))
			continue
		}
		o := w.Oblige(prop+"/typestate/"+hl.Func+"/"+hl.Opener+":closed-or-handed-over-on-every-exit", "frame", True, True)
		o.Preset, o.Solver, o.Result = true, "typestate-rule", "unsat"
		if len(hl.Leaks) > 0 {
			o.Result = "sat"
			o.Output = fmt.Sprintf("handle opened at %s is neither closed nor handed over at: %s", hl.Pos, strings.Join(hl.Leaks, ", "))
		}
	}
	return u
}
