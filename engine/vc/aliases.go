package vc

import (
	"fmt"
	"go/ast"
	"go/token"
	"go/types"
	"sort"
	"strings"
)

// Alias analysis for the C03 frame obligations.
//
// GlobalWrites (frames.go) sees a write only when the written l-value is syntactically rooted in a package-level
// variable.  A reference held by such a variable (a map, a slice, a pointer - directly or as an element/field) can be
// copied into a local, a field, a parameter or a result, and then written through the copy.  This analysis follows
// those copies: a flow-insensitive, field-based, object-insensitive points-to approximation with function summaries,
// iterated to a fixed point over the module.  Labels are "G:<pkg.var>" (memory owned by a package-level variable) and
// "P:<i>" (memory reachable from parameter i of the function being summarised; the receiver is -1).
//
// It reports one event per (variable, function, position) where memory labelled G:<v> is written ("alias-write").
// Storing an alias is not an event by itself; the field (or local, or caller-side argument) that receives it becomes
// labelled, so that a later write through it is.
//
// Deliberate approximations, in the direction of more events (reviewed against the unchanged tree: zero events):
//   - fields are merged over all objects of the struct type; container elements are merged with the container;
//   - interface method calls are resolved to every module method of that name and arity;
//   - calls of function values are assumed to write through every argument.
// In the direction of fewer events (listed as assumption A11 in the evidence):
//   - library functions are assumed not to write through or retain their arguments, except the mutators named in
//     libMutators (sort.*, slices.Sort*, copy-like readers);
//   - append(s, ...) is assumed to reallocate when s is a package-level slice built by a composite literal (cap == len);
//     append(s[:n], ...) is a write;
//   - closures are analysed as part of the enclosing function; reflection and unsafe are not modelled.

type labelSet map[string]bool

func (s labelSet) addAll(o labelSet) bool {
	ch := false
	for k := range o {
		if !s[k] {
			s[k] = true
			ch = true
		}
	}
	return ch
}

type aliasSummary struct {
	ret    labelSet           // labels of the results
	writes map[int]bool       // parameter i is written through
	stores map[int]labelSet   // parameter i's labels are stored into: "F:<id>" a field, "P:<j>" memory of parameter j
	fields map[string]*types.Var
}

type aliasState struct {
	p          *Program
	fieldTaint map[*types.Var]labelSet
	localTaint map[types.Object]labelSet
	sums       map[*FuncInfo]*aliasSummary
	fieldByID  map[string]*types.Var
	events     map[string]GlobalWrite
	changed    bool
	carryMemo  map[types.Type]int
	modPkgs    map[*types.Package]bool
}

var libMutators = map[string]bool{
	"sort.Sort": true, "sort.Stable": true, "sort.Slice": true, "sort.SliceStable": true, "sort.Strings": true,
	"sort.Ints": true, "sort.Float64s": true, "slices.Sort": true, "slices.SortFunc": true, "slices.SortStableFunc": true,
	"slices.Reverse": true, "io.ReadFull": true, "io.ReadAtLeast": true, "json.Unmarshal": true, "xml.Unmarshal": true,
	"rand.Shuffle": true, "binary.Read": true,
}
var libMutatorMethods = map[string]bool{"Read": true, "ReadAt": true, "Decode": true, "Scan": true}

func (a *aliasState) carries(t types.Type) bool {
	if t == nil {
		return false
	}
	switch a.carryMemo[t] {
	case 1:
		return true
	case 2, 3:
		return false
	}
	a.carryMemo[t] = 3
	r := false
	switch u := t.Underlying().(type) {
	case *types.Pointer, *types.Map, *types.Slice, *types.Chan:
		r = true
	case *types.Interface:
		r = !types.Identical(t, types.Universe.Lookup("error").Type())
	case *types.Struct:
		for i := 0; i < u.NumFields() && !r; i++ {
			r = a.carries(u.Field(i).Type())
		}
	case *types.Array:
		r = a.carries(u.Elem())
	case *types.Tuple:
		for i := 0; i < u.Len() && !r; i++ {
			r = a.carries(u.At(i).Type())
		}
	}
	if r {
		a.carryMemo[t] = 1
	} else {
		a.carryMemo[t] = 2
	}
	return r
}

type aliasFn struct {
	a      *aliasState
	fi     *FuncInfo
	info   *types.Info
	sum    *aliasSummary
	params map[types.Object]int
}

func (f *aliasFn) isGlobal(o types.Object) bool {
	v, ok := o.(*types.Var)
	return ok && v.Pkg() != nil && v.Parent() == v.Pkg().Scope() && f.a.modPkgs[v.Pkg()]
}

func isPtrType(t types.Type) bool {
	if t == nil {
		return false
	}
	_, ok := t.Underlying().(*types.Pointer)
	return ok
}

func (f *aliasFn) fieldOf(x *ast.SelectorExpr) *types.Var {
	if sel, ok := f.info.Selections[x]; ok && sel.Kind() == types.FieldVal {
		if v, ok := sel.Obj().(*types.Var); ok {
			return v
		}
	}
	return nil
}

// labels: what memory the value of e may refer to.
func (f *aliasFn) labels(e ast.Expr) labelSet {
	out := labelSet{}
	if e == nil {
		return out
	}
	t := f.info.TypeOf(e)
	switch x := e.(type) {
	case *ast.ParenExpr:
		return f.labels(x.X)
	case *ast.Ident:
		o := f.info.Uses[x]
		if o == nil {
			o = f.info.Defs[x]
		}
		if o == nil || !f.a.carries(t) {
			return out
		}
		if f.isGlobal(o) {
			out["G:"+o.Pkg().Name()+"."+o.Name()] = true
			return out
		}
		if i, ok := f.params[o]; ok {
			out[fmt.Sprintf("P:%d", i)] = true
		}
		out.addAll(f.a.localTaint[o])
	case *ast.SelectorExpr:
		if fv := f.fieldOf(x); fv != nil {
			if !f.a.carries(t) {
				return out
			}
			out.addAll(f.labels(x.X))
			if !isPtrType(f.info.TypeOf(x.X)) {
				out.addAll(f.memLabels(x.X))
			}
			out.addAll(f.a.fieldTaint[fv])
			return out
		}
		if o := f.info.Uses[x.Sel]; o != nil && f.isGlobal(o) && f.a.carries(t) {
			out["G:"+o.Pkg().Name()+"."+o.Name()] = true
		}
	case *ast.IndexExpr:
		if tv, ok := f.info.Types[x.X]; ok && tv.IsType() {
			return out
		}
		if f.a.carries(t) {
			out.addAll(f.labels(x.X))
			if _, isArr := f.info.TypeOf(x.X).Underlying().(*types.Array); isArr {
				out.addAll(f.memLabels(x.X))
			}
		}
	case *ast.SliceExpr:
		out.addAll(f.labels(x.X))
		if _, isArr := f.info.TypeOf(x.X).Underlying().(*types.Array); isArr {
			out.addAll(f.memLabels(x.X))
		}
	case *ast.StarExpr:
		if f.a.carries(t) {
			out.addAll(f.labels(x.X))
		}
	case *ast.UnaryExpr:
		if x.Op == token.AND {
			out.addAll(f.memLabels(x.X))
			out.addAll(f.labels(x.X))
		}
	case *ast.TypeAssertExpr:
		if f.a.carries(t) {
			out.addAll(f.labels(x.X))
		}
	case *ast.CompositeLit:
		for _, el := range x.Elts {
			if kv, ok := el.(*ast.KeyValueExpr); ok {
				out.addAll(f.labels(kv.Value))
			} else {
				out.addAll(f.labels(el))
			}
		}
	case *ast.CallExpr:
		return f.callLabels(x)
	}
	return out
}

// memLabels: what memory the l-value e lives in (empty for a local variable).
func (f *aliasFn) memLabels(e ast.Expr) labelSet {
	out := labelSet{}
	switch x := e.(type) {
	case *ast.ParenExpr:
		return f.memLabels(x.X)
	case *ast.Ident:
		if o := f.info.Uses[x]; o != nil && f.isGlobal(o) {
			out["G:"+o.Pkg().Name()+"."+o.Name()] = true
		}
	case *ast.SelectorExpr:
		if fv := f.fieldOf(x); fv != nil {
			if isPtrType(f.info.TypeOf(x.X)) {
				return f.labels(x.X)
			}
			return f.memLabels(x.X)
		}
		if o := f.info.Uses[x.Sel]; o != nil && f.isGlobal(o) {
			out["G:"+o.Pkg().Name()+"."+o.Name()] = true
		}
	case *ast.IndexExpr:
		if _, isArr := f.info.TypeOf(x.X).Underlying().(*types.Array); isArr {
			return f.memLabels(x.X)
		}
		return f.labels(x.X)
	case *ast.StarExpr:
		return f.labels(x.X)
	}
	return out
}

func (f *aliasFn) staticCallee(call *ast.CallExpr) (callee *types.Func, recv ast.Expr, dynamic bool) {
	switch fn := ast.Unparen(call.Fun).(type) {
	case *ast.Ident:
		callee, _ = f.info.Uses[fn].(*types.Func)
	case *ast.SelectorExpr:
		if sel, ok := f.info.Selections[fn]; ok {
			callee, _ = sel.Obj().(*types.Func)
			if sel.Kind() == types.MethodVal {
				recv = fn.X
				if types.IsInterface(sel.Recv()) {
					dynamic = true
				}
			}
		} else {
			callee, _ = f.info.Uses[fn.Sel].(*types.Func)
		}
	case *ast.IndexExpr:
		if id, ok := fn.X.(*ast.Ident); ok {
			callee, _ = f.info.Uses[id].(*types.Func)
		}
	}
	return
}

// targets: module functions a call may reach, with the receiver expression (nil for plain functions).
func (f *aliasFn) targets(call *ast.CallExpr) (fis []*FuncInfo, recv ast.Expr, lib *types.Func, unknown bool) {
	if tv, ok := f.info.Types[call.Fun]; ok && tv.IsType() {
		return nil, nil, nil, false
	}
	callee, recv, dyn := f.staticCallee(call)
	if callee == nil {
		if id, ok := ast.Unparen(call.Fun).(*ast.Ident); ok {
			if _, isB := f.info.Uses[id].(*types.Builtin); isB {
				return nil, nil, nil, false
			}
		}
		return nil, nil, nil, true
	}
	if dyn {
		if !f.a.modPkgs[callee.Pkg()] {
			return nil, recv, callee, false
		}
		sig := callee.Type().(*types.Signature)
		for _, k := range f.a.p.methodsNamed(callee.Name()) {
			fi := f.a.p.Funcs[k]
			if fi == nil || fi.Decl.Body == nil || strings.HasSuffix(fi.File, "_test.go") {
				continue
			}
			if s2, ok := fi.Obj.Type().(*types.Signature); ok && s2.Params().Len() == sig.Params().Len() {
				fis = append(fis, fi)
			}
		}
		return fis, recv, nil, false
	}
	if fi := f.a.p.ByObj[callee]; fi != nil && fi.Decl.Body != nil {
		return []*FuncInfo{fi}, recv, nil, false
	}
	if o := callee.Origin(); o != callee {
		if fi := f.a.p.ByObj[o]; fi != nil && fi.Decl.Body != nil {
			return []*FuncInfo{fi}, recv, nil, false
		}
	}
	return nil, recv, callee, false
}

func (p *Program) methodsNamed(name string) []string {
	if p.byMethodName == nil {
		p.byMethodName = map[string][]string{}
		for k, fi := range p.Funcs {
			if fi.Decl.Recv != nil {
				p.byMethodName[fi.Decl.Name.Name] = append(p.byMethodName[fi.Decl.Name.Name], k)
			}
		}
		for _, v := range p.byMethodName {
			sort.Strings(v)
		}
	}
	return p.byMethodName[name]
}

// argLabels: labels of the value bound to parameter i of callee fi at this call (receiver: -1).
func (f *aliasFn) argLabels(call *ast.CallExpr, recv ast.Expr, fi *FuncInfo, i int) labelSet {
	if i == -1 {
		if recv == nil {
			return labelSet{}
		}
		out := f.labels(recv)
		if fi != nil {
			if sig, ok := fi.Obj.Type().(*types.Signature); ok && sig.Recv() != nil && isPtrType(sig.Recv().Type()) && !isPtrType(f.info.TypeOf(recv)) {
				out.addAll(f.memLabels(recv))
			}
		}
		return out
	}
	out := labelSet{}
	var sig *types.Signature
	if fi != nil {
		sig, _ = fi.Obj.Type().(*types.Signature)
	}
	if sig != nil && sig.Variadic() && i >= sig.Params().Len()-1 {
		for j := sig.Params().Len() - 1; j < len(call.Args); j++ {
			out.addAll(f.labels(call.Args[j]))
		}
		return out
	}
	if i < len(call.Args) {
		return f.labels(call.Args[i])
	}
	return out
}

func (f *aliasFn) callLabels(call *ast.CallExpr) labelSet {
	out := labelSet{}
	t := f.info.TypeOf(call)
	if tv, ok := f.info.Types[call.Fun]; ok && tv.IsType() {
		if len(call.Args) == 1 && f.a.carries(t) {
			return f.labels(call.Args[0])
		}
		return out
	}
	if id, ok := ast.Unparen(call.Fun).(*ast.Ident); ok {
		if b, isB := f.info.Uses[id].(*types.Builtin); isB {
			if b.Name() == "append" && len(call.Args) > 0 {
				if sl, ok := t.Underlying().(*types.Slice); ok && f.a.carries(sl.Elem()) {
					for _, a := range call.Args {
						out.addAll(f.labels(a))
					}
				} else if _, isSl := ast.Unparen(call.Args[0]).(*ast.SliceExpr); isSl {
					out.addAll(f.labels(call.Args[0]))
				}
			}
			return out
		}
	}
	if !f.a.carries(t) {
		return out
	}
	fis, recv, _, _ := f.targets(call)
	for _, fi := range fis {
		s := f.a.sums[fi]
		if s == nil {
			continue
		}
		for l := range s.ret {
			if strings.HasPrefix(l, "P:") {
				var i int
				fmt.Sscanf(l, "P:%d", &i)
				out.addAll(f.argLabels(call, recv, fi, i))
			} else {
				out[l] = true
			}
		}
	}
	return out
}

func (f *aliasFn) event(l string, kind string, pos token.Pos) {
	if strings.HasPrefix(l, "P:") {
		var i int
		fmt.Sscanf(l, "P:%d", &i)
		if !f.sum.writes[i] {
			f.sum.writes[i] = true
			f.a.changed = true
		}
		return
	}
	ps := f.fi.Pkg.Fset.Position(pos)
	gw := GlobalWrite{Var: strings.TrimPrefix(l, "G:"), Func: f.fi.Key, Kind: kind, Pos: fmt.Sprintf("%s:%d", relFile(ps.Filename), ps.Line)}
	f.a.events[gw.String()] = gw
}

func (f *aliasFn) write(ls labelSet, kind string, pos token.Pos) {
	for l := range ls {
		f.event(l, kind, pos)
	}
}

func (f *aliasFn) fieldID(v *types.Var) string {
	id := fmt.Sprintf("F:%s.%s@%d", v.Pkg().Name(), v.Name(), v.Pos())
	f.a.fieldByID[id] = v
	return id
}

// store: the value labelled r is stored into the l-value lhs.
func (f *aliasFn) store(lhs ast.Expr, r labelSet) {
	if len(r) == 0 {
		return
	}
	e := lhs
	for {
		switch x := e.(type) {
		case *ast.ParenExpr:
			e = x.X
			continue
		case *ast.Ident:
			o := f.info.Uses[x]
			if o == nil {
				o = f.info.Defs[x]
			}
			if o == nil || x.Name == "_" || f.isGlobal(o) {
				return
			}
			if f.a.localTaint[o] == nil {
				f.a.localTaint[o] = labelSet{}
			}
			if f.a.localTaint[o].addAll(r) {
				f.a.changed = true
			}
			if i, ok := f.params[o]; ok && e != lhs {
				f.storeIntoTarget(fmt.Sprintf("P:%d", i), r)
			}
			return
		case *ast.SelectorExpr:
			if fv := f.fieldOf(x); fv != nil {
				f.storeIntoTarget(f.fieldID(fv), r)
				return
			}
			return
		case *ast.IndexExpr:
			e = x.X
			continue
		case *ast.SliceExpr:
			e = x.X
			continue
		case *ast.StarExpr:
			e = x.X
			continue
		case *ast.CallExpr:
			// store into the result of a call: into whatever that result refers to
			for l := range f.labels(x) {
				if strings.HasPrefix(l, "P:") {
					f.storeIntoTarget(l, r)
				}
			}
			return
		}
		return
	}
}

func (f *aliasFn) storeIntoTarget(target string, r labelSet) {
	for l := range r {
		if strings.HasPrefix(l, "P:") {
			var i int
			fmt.Sscanf(l, "P:%d", &i)
			if f.sum.stores[i] == nil {
				f.sum.stores[i] = labelSet{}
			}
			if !f.sum.stores[i][target] && target != l {
				f.sum.stores[i][target] = true
				f.a.changed = true
			}
			continue
		}
		if strings.HasPrefix(target, "F:") {
			fv := f.a.fieldByID[target]
			if f.a.fieldTaint[fv] == nil {
				f.a.fieldTaint[fv] = labelSet{}
			}
			if !f.a.fieldTaint[fv][l] {
				f.a.fieldTaint[fv][l] = true
				f.a.changed = true
			}
		}
		// a G label stored into parameter memory without a field on the way: the caller sees it through the
		// summary's "gstores" below
		if strings.HasPrefix(target, "P:") {
			var j int
			fmt.Sscanf(target, "P:%d", &j)
			key := -1000 - j
			if f.sum.stores[key] == nil {
				f.sum.stores[key] = labelSet{}
			}
			if !f.sum.stores[key][l] {
				f.sum.stores[key][l] = true
				f.a.changed = true
			}
		}
	}
}

// argExpr: the expression bound to parameter j (receiver -1) when it is a single expression.
func argExpr(call *ast.CallExpr, recv ast.Expr, j int) ast.Expr {
	if j == -1 {
		return recv
	}
	if j >= 0 && j < len(call.Args) {
		return call.Args[j]
	}
	return nil
}

func (f *aliasFn) doCall(call *ast.CallExpr) {
	if tv, ok := f.info.Types[call.Fun]; ok && tv.IsType() {
		return
	}
	if id, ok := ast.Unparen(call.Fun).(*ast.Ident); ok {
		if b, isB := f.info.Uses[id].(*types.Builtin); isB {
			switch b.Name() {
			case "delete", "clear":
				if len(call.Args) > 0 {
					f.write(f.labels(call.Args[0]), "alias-write:"+b.Name(), call.Pos())
				}
			case "copy":
				if len(call.Args) == 2 {
					f.write(f.labels(call.Args[0]), "alias-write:copy", call.Pos())
					if sl, ok := f.info.TypeOf(call.Args[0]).Underlying().(*types.Slice); ok && f.a.carries(sl.Elem()) {
						f.store(&ast.IndexExpr{X: call.Args[0]}, f.labels(call.Args[1]))
					}
				}
			case "append":
				if len(call.Args) > 0 {
					if sx, isSl := ast.Unparen(call.Args[0]).(*ast.SliceExpr); isSl {
						f.write(f.labels(sx.X), "alias-write:append-in-place", call.Pos())
					}
				}
			}
			return
		}
	}
	fis, recv, lib, unknown := f.targets(call)
	if unknown {
		for _, a := range call.Args {
			f.write(f.labels(a), "alias-write:function-value-call", call.Pos())
		}
		return
	}
	if lib != nil {
		name := lib.Name()
		full := ""
		if lib.Pkg() != nil {
			full = lib.Pkg().Name() + "." + name
		}
		if sig, _ := lib.Type().(*types.Signature); sig != nil && sig.Recv() != nil {
			if libMutatorMethods[name] {
				for _, a := range call.Args {
					f.write(f.labels(a), "alias-write:"+name, call.Pos())
				}
			}
			return
		}
		if libMutators[full] {
			for _, a := range call.Args {
				f.write(f.labels(a), "alias-write:"+full, call.Pos())
			}
		}
		return
	}
	for _, fi := range fis {
		s := f.a.sums[fi]
		if s == nil {
			continue
		}
		for i := range s.writes {
			f.write(f.argLabels(call, recv, fi, i), "alias-write:via "+fi.Key, call.Pos())
		}
		for i, tgts := range s.stores {
			if i <= -1000 {
				// G labels stored into parameter j's memory
				j := -1000 - i
				if ae := argExpr(call, recv, j); ae != nil {
					f.store(&ast.StarExpr{X: ae}, tgts)
				}
				continue
			}
			al := f.argLabels(call, recv, fi, i)
			if len(al) == 0 {
				continue
			}
			for tg := range tgts {
				if strings.HasPrefix(tg, "F:") {
					f.storeIntoTarget(tg, al)
				} else if strings.HasPrefix(tg, "P:") {
					var j int
					fmt.Sscanf(tg, "P:%d", &j)
					if ae := argExpr(call, recv, j); ae != nil {
						f.store(&ast.StarExpr{X: ae}, al)
					}
				}
			}
		}
	}
}

func (f *aliasFn) run() {
	sig := f.fi.Obj.Type().(*types.Signature)
	f.params = map[types.Object]int{}
	if rv := sig.Recv(); rv != nil {
		f.params[rv] = -1
	}
	for i := 0; i < sig.Params().Len(); i++ {
		f.params[sig.Params().At(i)] = i
	}
	addRet := func(ls labelSet) {
		if f.sum.ret.addAll(ls) {
			f.a.changed = true
		}
	}
	var lits []*ast.FuncLit
	ast.Inspect(f.fi.Decl.Body, func(n ast.Node) bool {
		switch s := n.(type) {
		case *ast.FuncLit:
			lits = append(lits, s)
		case *ast.AssignStmt:
			if len(s.Lhs) == len(s.Rhs) {
				for i, l := range s.Lhs {
					if s.Tok != token.DEFINE {
						if _, plain := ast.Unparen(l).(*ast.Ident); !plain {
							f.write(f.memLabels(l), "alias-write", l.Pos())
						}
					}
					if f.a.carries(f.info.TypeOf(s.Rhs[i])) {
						f.store(l, f.labels(s.Rhs[i]))
					}
				}
			} else if len(s.Rhs) == 1 {
				r := f.labels(s.Rhs[0])
				if _, isCall := ast.Unparen(s.Rhs[0]).(*ast.CallExpr); !isCall {
					// v, ok := m[k] / x.(T) / <-ch
					r = f.labels(s.Rhs[0])
				}
				for _, l := range s.Lhs {
					if s.Tok != token.DEFINE {
						if _, plain := ast.Unparen(l).(*ast.Ident); !plain {
							f.write(f.memLabels(l), "alias-write", l.Pos())
						}
					}
					if f.a.carries(f.info.TypeOf(l)) {
						f.store(l, r)
					}
				}
			}
		case *ast.IncDecStmt:
			if _, plain := ast.Unparen(s.X).(*ast.Ident); !plain {
				f.write(f.memLabels(s.X), "alias-write", s.Pos())
			}
		case *ast.GenDecl:
			for _, sp := range s.Specs {
				if vs, ok := sp.(*ast.ValueSpec); ok {
					for i, nm := range vs.Names {
						if i < len(vs.Values) && f.a.carries(f.info.TypeOf(nm)) {
							f.store(nm, f.labels(vs.Values[i]))
						} else if len(vs.Values) == 1 && len(vs.Names) > 1 && f.a.carries(f.info.TypeOf(nm)) {
							f.store(nm, f.labels(vs.Values[0]))
						}
					}
				}
			}
		case *ast.RangeStmt:
			r := f.labels(s.X)
			if _, isArr := f.info.TypeOf(s.X).Underlying().(*types.Array); isArr {
				r.addAll(f.memLabels(s.X))
			}
			for _, e := range []ast.Expr{s.Key, s.Value} {
				if e != nil && f.a.carries(f.info.TypeOf(e)) {
					if s.Tok == token.ASSIGN {
						if _, plain := ast.Unparen(e).(*ast.Ident); !plain {
							f.write(f.memLabels(e), "alias-write", e.Pos())
						}
					}
					f.store(e, r)
				}
			}
		case *ast.SendStmt:
			f.store(&ast.StarExpr{X: s.Chan}, f.labels(s.Value))
		case *ast.ReturnStmt:
			if len(s.Results) == 0 {
				res := sig.Results()
				for i := 0; i < res.Len(); i++ {
					if res.At(i).Name() != "" {
						addRet(f.a.localTaint[res.At(i)])
					}
				}
			}
			for _, r := range s.Results {
				if f.a.carries(f.info.TypeOf(r)) {
					addRet(f.labels(r))
				}
			}
		case *ast.CallExpr:
			f.doCall(s)
		}
		return true
	})
	_ = lits
}

// GlobalAliasWrites runs the analysis to a fixed point and returns the events.
func GlobalAliasWrites(p *Program) ([]GlobalWrite, map[string][]string) {
	a := &aliasState{p: p, fieldTaint: map[*types.Var]labelSet{}, localTaint: map[types.Object]labelSet{}, sums: map[*FuncInfo]*aliasSummary{},
		fieldByID: map[string]*types.Var{}, events: map[string]GlobalWrite{}, carryMemo: map[types.Type]int{}, modPkgs: map[*types.Package]bool{}}
	for _, pkg := range p.Pkgs {
		a.modPkgs[pkg.Types] = true
	}
	var keys []string
	for k, fi := range p.Funcs {
		if fi.Decl.Body == nil || strings.HasSuffix(fi.File, "_test.go") {
			continue
		}
		keys = append(keys, k)
		a.sums[fi] = &aliasSummary{ret: labelSet{}, writes: map[int]bool{}, stores: map[int]labelSet{}}
	}
	sort.Strings(keys)
	for iter := 0; iter < 50; iter++ {
		a.changed = false
		for _, k := range keys {
			fi := p.Funcs[k]
			f := &aliasFn{a: a, fi: fi, info: fi.Pkg.TypesInfo, sum: a.sums[fi]}
			f.run()
		}
		if !a.changed {
			break
		}
	}
	var out []GlobalWrite
	for _, e := range a.events {
		out = append(out, e)
	}
	sort.Slice(out, func(i, j int) bool { return out[i].String() < out[j].String() })
	// tainted fields, for the report
	ft := map[string][]string{}
	for fv, ls := range a.fieldTaint {
		var xs []string
		for l := range ls {
			xs = append(xs, l)
		}
		sort.Strings(xs)
		ft[fv.Pkg().Name()+"."+fv.Name()] = xs
	}
	return out, ft
}
