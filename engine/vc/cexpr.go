package vc

import (
	"strconv"
	"fmt"
	"go/types"
	"math/big"
	"strings"
)

// Scope resolves names in contract expressions.
type Scope struct {
	x          *Exec
	pkg        string
	locals     map[string]Term
	oldLocals  map[string]Term
	resolve    func(string) (Term, bool)
	resolveOld func(string) (Term, bool)
	inOld      bool
	entry      *Scope // scope of the loop-entry state (for entry(e))
	prev       *Scope // scope of the state at the start of the iteration (for prev(e))
}

func (s *Scope) child() *Scope {
	n := *s
	n.locals = map[string]Term{}
	for k, v := range s.locals {
		n.locals[k] = v
	}
	return &n
}

type typeRes struct {
	sort Sort
	goT  types.Type
}

// resolveTypeName maps contract type text to a sort.
func (x *Exec) resolveTypeName(t string, pkg string) typeRes {
	switch t {
	case "int", "int64", "int32", "uint32", "uint64", "uint", "uint16", "int16", "int8":
		for _, b := range types.Typ {
			if b.Name() == t {
				return typeRes{SInt, b}
			}
		}
	case "byte", "uint8":
		return typeRes{SInt, types.Typ[types.Uint8]}
	case "rune":
		return typeRes{SInt, types.Typ[types.Int32]}
	case "mathint":
		return typeRes{SInt, nil}
	case "bool":
		return typeRes{SBool, types.Typ[types.Bool]}
	case "real", "float64":
		return typeRes{SReal, types.Typ[types.Float64]}
	case "string":
		return typeRes{x.W.SeqSort(SInt), types.Typ[types.String]}
	}
	if strings.HasPrefix(t, "[]") {
		el := x.resolveTypeName(t[2:], pkg)
		r := typeRes{sort: x.W.SeqSort(el.sort)}
		if el.goT != nil {
			r.goT = types.NewSlice(el.goT)
		}
		return r
	}
	if strings.HasPrefix(t, "[") {
		k := strings.Index(t, "]")
		el := x.resolveTypeName(t[k+1:], pkg)
		r := typeRes{sort: ArraySort(SInt, el.sort)}
		if el.goT != nil {
			var n int64
			fmt.Sscanf(t[1:k], "%d", &n)
			r.goT = types.NewArray(el.goT, n)
		}
		return r
	}
	if strings.HasPrefix(t, "*") {
		r := x.resolveTypeName(t[1:], pkg)
		if r.goT != nil {
			if _, isNamed := r.goT.(*types.Named); isNamed {
				r.goT = types.NewPointer(r.goT)
			}
		}
		return r
	}
	if strings.HasPrefix(t, "map") {
		unsupported("map type in contract: %s", t)
	}
	// Go named type: pkg.Name or Name
	pn, name := pkg, t
	if i := strings.Index(t, "."); i >= 0 {
		pn, name = t[:i], t[i+1:]
	}
	if p := x.P.ByName[pn]; p != nil {
		if obj := p.Types.Scope().Lookup(name); obj != nil {
			if tn, ok := obj.(*types.TypeName); ok {
				return typeRes{x.W.SortOf(tn.Type()), tn.Type()}
			}
		}
	}
	// a type declared inside a function body (type yBand struct{...}): accepted when the name is unique in the package
	if p := x.P.ByName[pn]; p != nil {
		var found []*types.TypeName
		for id, obj := range p.TypesInfo.Defs {
			if tn, ok := obj.(*types.TypeName); ok && id.Name == name && tn.Parent() != p.Types.Scope() {
				found = append(found, tn)
			}
		}
		if len(found) == 1 {
			return typeRes{x.W.SortOf(found[0].Type()), found[0].Type()}
		}
	}
	unsupported("unknown type %q in contract", t)
	return typeRes{}
}

func (s *Scope) EvalBool(e Expr) Term {
	t := s.Eval(e)
	if t.Sort != SBool {
		unsupported("contract expression is not boolean: %s", t.S)
	}
	return t
}

func (s *Scope) lookup(name string) (Term, bool) {
	if s.inOld {
		if s.oldLocals != nil {
			if v, ok := s.oldLocals[name]; ok {
				return v, true
			}
		}
		if s.resolveOld != nil {
			if v, ok := s.resolveOld(name); ok {
				return v, true
			}
		}
	}
	if v, ok := s.locals[name]; ok {
		return v, true
	}
	if s.resolve != nil {
		if v, ok := s.resolve(name); ok {
			return v, true
		}
	}
	// package-level constant
	if p := s.x.P.ByName[s.pkg]; p != nil {
		if obj := p.Types.Scope().Lookup(name); obj != nil {
			if c, ok := obj.(*types.Const); ok {
				if t, ok := ConstTerm(s.x.W, c.Val(), s.x.W.SortOf(c.Type())); ok {
					t.GoT = c.Type()
					return t, true
				}
			}
			if v, ok := obj.(*types.Var); ok {
				return s.x.globalVar(v), true
			}
		}
	}
	return Term{}, false
}

func (s *Scope) Eval(e Expr) Term {
	x := s.x
	w := x.W
	switch e := e.(type) {
	case ELit:
		switch e.Kind {
		case "int":
			n, _ := new(big.Int).SetString(e.Val, 10)
			return BigIntLit(n)
		case "real":
			r, _ := new(big.Rat).SetString(e.Val)
			return RatLit(r)
		case "bool":
			if e.Val == "true" {
				return True
			}
			return False
		case "string":
			return StringLit(w, e.Val)
		}
	case EIdent:
		if v, ok := s.lookup(e.Name); ok {
			return v
		}
		if e.Name == "nil" {
			unsupported("nil in contract expression (use isnil(x))")
		}
		unsupported("unknown name %q in contract", e.Name)
	case EOld:
		n := *s
		n.inOld = true
		return (&n).Eval(e.X)
	case EPrev:
		if s.prev == nil {
			unsupported("prev(...) outside a step clause")
		}
		return s.prev.Eval(e.X)
	case EEntry:
		if s.entry == nil {
			unsupported("entry(...) outside a loop contract")
		}
		return s.entry.Eval(e.X)
	case EUn:
		v := s.Eval(e.X)
		if e.Op == "!" {
			return Not(v)
		}
		return T("(- "+v.S+")", v.Sort)
	case EBin:
		switch e.Op {
		case "&&":
			return And(s.Eval(e.L), s.Eval(e.R))
		case "||":
			return Or(s.Eval(e.L), s.Eval(e.R))
		case "==>":
			return Implies(s.Eval(e.L), s.Eval(e.R))
		case "<==>":
			return Eq(s.Eval(e.L), s.Eval(e.R))
		}
		l, r := s.Eval(e.L), s.Eval(e.R)
		switch e.Op {
		case "==":
			return x.eqTerms(l, r)
		case "!=":
			return Not(x.eqTerms(l, r))
		case "<", "<=", ">", ">=":
			return Cmp(e.Op, l, r)
		case "+", "-", "*":
			if w.IsSeq(l.Sort) && e.Op == "+" {
				return x.concat(l, r, &Env{pc: True})
			}
			return Arith(e.Op, l, r)
		case "/":
			l, r = coerceNum(l, r)
			if l.Sort == SReal {
				return T("(/ "+l.S+" "+r.S+")", SReal)
			}
			return T("(div "+l.S+" "+r.S+")", SInt)
		case "%":
			return T("(mod "+l.S+" "+r.S+")", SInt)
		}
	case ECond:
		return Ite(s.Eval(e.C), s.Eval(e.A), s.Eval(e.B))
	case ELet:
		v := s.Eval(e.Val)
		c := s.child()
		c.locals[e.Name] = v
		return c.Eval(e.Body)
	case EQuant:
		if x.unroll > 0 {
			// counterexample-search mode: integer quantifiers are expanded over the index window of the bounded sequences
			allInt := true
			for _, p := range e.Vars {
				switch p.Type {
				case "int", "byte", "uint8", "rune", "int64", "int32", "uint32", "mathint":
				default:
					allInt = false
				}
			}
			if allInt && len(e.Vars) <= 2 {
				var parts []Term
				var rec func(i int, c *Scope)
				rec = func(i int, c *Scope) {
					if i == len(e.Vars) {
						parts = append(parts, c.EvalBool(e.Body))
						return
					}
					for k := -1; k <= searchMaxLen+1; k++ {
						n := c.child()
						n.locals[e.Vars[i].Name] = IntLit(int64(k))
						rec(i+1, n)
					}
				}
				rec(0, s)
				if e.Forall {
					return And(parts...)
				}
				return Or(parts...)
			}
		}
		c := s.child()
		var decls []string
		var guards []Term
		for _, p := range e.Vars {
			tr := x.resolveTypeName(p.Type, s.pkg)
			w.nfresh++
			name := fmt.Sprintf("%s!q%d", sanitize(p.Name), w.nfresh)
			decls = append(decls, fmt.Sprintf("(%s %s)", name, tr.sort))
			v := T(name, tr.sort)
			v.GoT = tr.goT
			c.locals[p.Name] = v
			if tr.goT != nil {
				if g := x.typeInv(v, tr.goT); g.S != "true" {
					guards = append(guards, g)
				}
			}
		}
		var body Term
		func() {
			x.noFacts++
			defer func() { x.noFacts-- }()
			body = c.EvalBool(e.Body)
		}()
		q := "forall"
		if e.Forall {
			body = Implies(And(guards...), body)
		} else {
			q = "exists"
			body = And(append(guards, body)...)
		}
		if len(e.Triggers) > 0 {
			var pats []string
			for _, tg := range e.Triggers {
				var ts []string
				for _, te := range tg {
					func() {
						x.noFacts++
						defer func() { x.noFacts-- }()
						ts = append(ts, c.Eval(te).S)
					}()
				}
				pats = append(pats, ":pattern ("+strings.Join(ts, " ")+")")
			}
			return T(fmt.Sprintf("(%s (%s) (! %s %s))", q, strings.Join(decls, " "), body.S, strings.Join(pats, " ")), SBool)
		}
		return T(fmt.Sprintf("(%s (%s) %s)", q, strings.Join(decls, " "), body.S), SBool)
	case EIndex:
		b := s.Eval(e.X)
		i := s.Eval(e.I)
		switch {
		case w.IsSeq(b.Sort):
			return w.SeqAt(b, i)
		case isArraySort(b.Sort):
			r := Select(b, i)
			if at, ok := typeUnder(b.GoT).(*types.Array); ok {
				r.GoT = at.Elem()
			}
			return r
		case w.IsMap(b.Sort):
			val, _ := w.Field(b, "val")
			r := Select(val, i)
			if mt, ok := typeUnder(b.GoT).(*types.Map); ok {
				r.GoT = mt.Elem()
			}
			return r
		}
		unsupported("index on %s in contract", b.Sort)
	case ESlice:
		b := s.Eval(e.X)
		if !w.IsSeq(b.Sort) {
			unsupported("slice of non-sequence in contract")
		}
		lo := IntLit(0)
		hi := w.SeqLen(b)
		if e.Lo != nil {
			lo = s.Eval(e.Lo)
		}
		if e.Hi != nil {
			hi = s.Eval(e.Hi)
		}
		r := w.MkSeq(b.Sort, w.SeqBase(b), Arith("+", w.SeqOff(b), lo), Arith("-", hi, lo))
		r.GoT = b.GoT
		return x.sliceFacts(r, b, lo)
	case ESel:
		// package-qualified name?
		if id, ok := e.X.(EIdent); ok {
			if _, isLocal := s.lookup(id.Name); !isLocal {
				if p := x.P.ByName[id.Name]; p != nil {
					n := *s
					n.pkg = id.Name
					n.locals = map[string]Term{}
					n.resolve = nil
					if v, ok := (&n).lookup(e.Name); ok {
						return v
					}
					unsupported("unknown qualified name %s.%s", id.Name, e.Name)
				}
				// constant of an imported library package
				if cur := x.P.ByName[s.pkg]; cur != nil {
					for _, imp := range cur.Imports {
						if imp.Name == id.Name && imp.Types != nil {
							if c, ok := imp.Types.Scope().Lookup(e.Name).(*types.Const); ok {
								if t, ok := ConstTerm(w, c.Val(), w.SortOf(c.Type())); ok {
									t.GoT = c.Type()
									return t
								}
							}
						}
					}
				}
			}
		}
		b := s.Eval(e.X)
		// embedded-aware lookup via Go type
		if st, ok := typeUnder(derefT(b.GoT)).(*types.Struct); ok {
			if r, ok := x.fieldByName(b, st, e.Name); ok {
				return r
			}
		}
		if r, ok := w.Field(b, e.Name); ok {
			return r
		}
		if strings.HasPrefix(string(b.Sort), "U_") {
			if r, ok := x.opaqueField(b, e.Name); ok {
				return r
			}
		}
		unsupported("no field %s on %s", e.Name, b.Sort)
	case ECall:
		return s.evalCall(e)
	}
	unsupported("contract expression %T", e)
	return Term{}
}

func typeUnder(t types.Type) types.Type {
	if t == nil {
		return nil
	}
	return t.Underlying()
}

func derefT(t types.Type) types.Type {
	if t == nil {
		return nil
	}
	return derefType(t)
}

func (x *Exec) fieldByName(b Term, st *types.Struct, name string) (Term, bool) {
	for i := 0; i < st.NumFields(); i++ {
		f := st.Field(i)
		if f.Name() == name {
			r, ok := x.W.Field(b, name)
			if ok {
				r.GoT = f.Type()
			}
			return r, ok
		}
	}
	// promoted through embedded structs
	for i := 0; i < st.NumFields(); i++ {
		f := st.Field(i)
		if !f.Embedded() {
			continue
		}
		if est, ok := derefType(f.Type()).Underlying().(*types.Struct); ok {
			inner, ok := x.W.Field(b, f.Name())
			if !ok {
				continue
			}
			inner.GoT = f.Type()
			if r, ok := x.fieldByName(inner, est, name); ok {
				return r, true
			}
		}
	}
	return Term{}, false
}

func (s *Scope) evalCall(e ECall) Term {
	x := s.x
	w := x.W
	var fname, fpkg string
	switch f := e.Fun.(type) {
	case EIdent:
		fname, fpkg = f.Name, s.pkg
	case ESel:
		if id, ok := f.X.(EIdent); ok {
			fname, fpkg = f.Name, id.Name
			// method on a value?  recv.Method(args)
			if _, isLocal := s.lookup(id.Name); isLocal {
				return s.evalMethodCall(f, e.Args)
			}
		} else {
			return s.evalMethodCall(f, e.Args)
		}
	default:
		unsupported("call target in contract")
	}
	args := func() []Term {
		var as []Term
		for _, a := range e.Args {
			as = append(as, s.Eval(a))
		}
		return as
	}
	if _, isSel := e.Fun.(EIdent); isSel {
		switch fname {
		case "screm":
			r := s.Eval(e.Args[0])
			w.DeclareFun("scRem", []Sort{r.Sort}, SInt)
			return T("(scRem "+r.S+")", SInt)
		case "rdpos", "rdlen", "rdat", "rdbuf", "rddata", "rdbad":
			// bufio.Reader model: position, length of the stream, byte at an absolute index, guaranteed buffered bytes
			r := s.Eval(e.Args[0])
			x.bufioDecl(r.Sort)
			switch fname {
			case "rdpos":
				return x.rdPos(r)
			case "rdbuf":
				return x.rdBuf(r)
			case "rdbad":
				return x.rdBad(r)
			case "rdlen":
				return w.SeqLen(x.rdData(r))
			case "rddata":
				d := x.rdData(r)
				d.GoT = types.NewSlice(types.Typ[types.Uint8])
				return d
			default:
				return w.SeqAt(x.rdData(r), s.Eval(e.Args[1]))
			}
		case "istype", "astype":
			// dynamic type test / assertion value of an interface value: istype(v, T), astype(v, T);
			// T is a type name (Int, core.Name) or a string literal for pointer types ("*core.Stream")
			v := s.Eval(e.Args[0])
			var tn string
			switch a := e.Args[1].(type) {
			case EIdent:
				tn = a.Name
			case ESel:
				if id, ok := a.X.(EIdent); ok {
					tn = id.Name + "." + a.Name
				}
			case ELit:
				tn = a.Val
			}
			if tn == "" {
				unsupported("%s: second argument must name a type", fname)
			}
			var gt types.Type
			if strings.HasPrefix(tn, "*") {
				if r := x.resolveTypeName(tn[1:], s.pkg); r.goT != nil {
					gt = types.NewPointer(r.goT)
				}
			} else {
				gt = x.resolveTypeName(tn, s.pkg).goT
			}
			if gt == nil {
				unsupported("%s: unknown Go type %q", fname, tn)
			}
			if fname == "istype" {
				return x.dynTypeIs(v, gt)
			}
			return x.dynValue(v, gt)
		case "len":
			a := s.Eval(e.Args[0])
			if w.IsSeq(a.Sort) {
				return w.SeqLen(a)
			}
			if w.IsMap(a.Sort) {
				c, _ := w.Field(a, "card")
				return c
			}
			if at, ok := typeUnder(a.GoT).(*types.Array); ok {
				return IntLit(at.Len())
			}
			unsupported("len of %s in contract", a.Sort)
		case "rune":
			v := s.Eval(e.Args[0])
			return T("(- (mod (+ "+v.S+" 2147483648) 4294967296) 2147483648)", SInt)
		case "int", "int64", "int32", "mathint":
			a := s.Eval(e.Args[0])
			if a.Sort == SReal {
				return T("(truncR "+a.S+")", SInt)
			}
			return a
		case "byte", "uint8":
			return T("(mod "+s.Eval(e.Args[0]).S+" 256)", SInt)
		case "uint16":
			return T("(mod "+s.Eval(e.Args[0]).S+" 65536)", SInt)
		case "uint32":
			return T("(mod "+s.Eval(e.Args[0]).S+" 4294967296)", SInt)
		case "real", "float64":
			return ToReal(s.Eval(e.Args[0]))
		case "abs":
			a := s.Eval(e.Args[0])
			if a.Sort == SReal {
				return T("(absR "+a.S+")", SReal)
			}
			return T("(absI "+a.S+")", SInt)
		case "min", "max":
			as := args()
			a, b := coerceNum(as[0], as[1])
			suffix := "I"
			if a.Sort == SReal {
				suffix = "R"
			}
			return T("("+fname+suffix+" "+a.S+" "+b.S+")", a.Sort)
		case "has": // has(m, k)
			as := args()
			dom, _ := w.Field(as[0], "dom")
			return Select(dom, as[1])
		case "isnil":
			a := s.Eval(e.Args[0])
			if a.GoT != nil {
				if _, isIface := a.GoT.Underlying().(*types.Interface); isIface && a.Sort != SBool {
					return Eq(a, x.zero(a.GoT))
				}
			}
			name := "isnil_" + sanitize(string(a.Sort))
			if a.GoT != nil {
				if _, ok := a.GoT.Underlying().(*types.Pointer); ok {
					name = "isnilptr_" + sanitize(string(a.Sort))
				}
			}
			w.DeclareFun(name, []Sort{a.Sort}, SBool)
			return T("("+name+" "+a.S+")", SBool)
		case "iserr":
			return s.Eval(e.Args[0])
		case "trimbyte": // the byte class strings.TrimSpace removes (same uninterpreted predicate as the library model)
			a := s.Eval(e.Args[0])
			w.DeclareFun("isTrimByte", []Sort{SInt}, SBool)
			return T("(isTrimByte "+a.S+")", SBool)
		case "runecount": // number of runes of a string (uninterpreted; 0 <= runecount(s) <= len(s)); len([]rune(s)) in code
			a := s.Eval(e.Args[0])
			return x.runeCount(a, nil)
		case "sameseq": // extensional equality
			as := args()
			return x.seqEq(as[0], as[1])
		case "same": // structural identity (same backing array, offset and length for sequences)
			as := args()
			return Eq(as[0], as[1])
		case "off": // offset attribute of a slice/string value inside its backing array
			return w.SeqOff(s.Eval(e.Args[0]))
		case "samebase":
			as := args()
			return Eq(w.SeqBase(as[0]), w.SeqBase(as[1]))
		case "div": // mathematical floor division
			as := args()
			return T("(div "+as[0].S+" "+as[1].S+")", SInt)
		case "mod":
			as := args()
			return T("(mod "+as[0].S+" "+as[1].S+")", SInt)
		case "gdiv":
			as := args()
			return T("(gdiv "+as[0].S+" "+as[1].S+")", SInt)
		case "weight": // arbitrary non-negative weight of a value (uninterpreted): conservation for every weight = multiset equality
			a := s.Eval(e.Args[0])
			fn := "weight_" + sanitize(string(a.Sort))
			w.DeclareFun(fn, []Sort{a.Sort}, SInt)
			if !w.constSeen[fn+"$ax"] {
				w.constSeen[fn+"$ax"] = true
				w.Facts = append([]string{fmt.Sprintf("(forall ((v %s)) (! (>= (%s v) 0) :pattern ((%s v))))", a.Sort, fn, fn)}, w.Facts...)
				for _, o := range w.Obls {
					o.FactsN++
				}
			}
			return T("("+fn+" "+a.S+")", SInt)
		case "strcat": // concatenation as a function (the symbol the code's string/byte concatenations are tied to)
			as := args()
			cat := "strcat_" + sanitize(string(as[0].Sort))
			w.DeclareFun(cat, []Sort{as[0].Sort, as[1].Sort}, as[0].Sort)
			r := T("("+cat+" "+as[0].S+" "+as[1].S+")", as[0].Sort)
			r.GoT = as[0].GoT
			return r
		case "utf8enc": // UTF-8 encoding of a scalar value (the function string(rune) computes)
			v := s.Eval(e.Args[0])
			so := w.SeqSort(SInt)
			w.DeclareFun("utf8enc", []Sort{SInt}, so)
			r := T("(utf8enc "+v.S+")", so)
			r.GoT = types.Typ[types.String]
			return r
		case "zeros": // zeros(n): sequence of n zero bytes
			n := s.Eval(e.Args[0])
			so := w.SeqSort(SInt)
			r := w.MkSeq(so, ConstArray(ArraySort(SInt, SInt), IntLit(0)), IntLit(0), n)
			return r
		case "sqrt":
			return T("(sqrtU "+ToReal(s.Eval(e.Args[0])).S+")", SReal)
		}
	}
	// spec function
	if sf := x.P.Contracts.Specs[fname]; sf != nil {
		name := x.defineSpec(sf)
		as := args()
		for i := range as {
			if i < len(sf.Params) {
				as[i] = x.coerce(as[i], x.resolveTypeName(sf.Params[i].Type, sf.Pkg).sort)
			}
		}
		tr := x.resolveTypeName(sf.Ret, sf.Pkg)
		r := T(app(name, as...), tr.sort)
		r.GoT = tr.goT
		if len(as) == 0 {
			r.S = name
		}
		return r
	}
	// Go function compiled to a term
	key := fpkg + "." + fname
	if fi := x.P.Funcs[key]; fi != nil {
		if fc := x.P.Contracts.Funcs[fi.Key]; fc != nil && fc.Flags["pure"] {
			return x.pureUF(fi, Term{}, args())
		}
		tf := x.termFunOf(fi)
		if tf == nil || !tf.ok {
			unsupported("Go function %s cannot be used in a contract (not a pure loop-free function)", key)
		}
		as := args()
		sig := fi.Obj.Type().(*types.Signature)
		for i := range as {
			if i < sig.Params().Len() {
				as[i] = x.coerce(as[i], w.SortOf(sig.Params().At(i).Type()))
			}
		}
		rt := sig.Results().At(0).Type()
		r := T(app(tf.names[0], as...), w.SortOf(rt))
		r.GoT = rt
		return r
	}
	// a function-valued parameter or local (resolver(ref), resolver$1(ref)): the same uninterpreted function of its
	// arguments that calls of the value in the code are modelled by (callFuncValue)
	{
		base, idx := fname, 0
		if i := strings.Index(fname, "$"); i > 0 {
			base = fname[:i]
			fmt.Sscanf(fname[i+1:], "%d", &idx)
		}
		if v, ok := s.lookup(base); ok && v.GoT != nil {
			if ft, isSig := v.GoT.Underlying().(*types.Signature); isSig && idx < ft.Results().Len() {
				as := args()
				var sorts []Sort
				for i := range as {
					if i < ft.Params().Len() {
						as[i] = x.coerce(as[i], w.SortOf(ft.Params().At(i).Type()))
					}
					sorts = append(sorts, as[i].Sort)
				}
				rt := ft.Results().At(idx).Type()
				name := fmt.Sprintf("fv_%s$%d", sanitize(base), idx)
				w.DeclareFun(name, sorts, w.SortOf(rt))
				r := T(app(name, as...), w.SortOf(rt))
				if len(as) == 0 {
					r.S = name
				}
				r.GoT = rt
				return r
			}
		}
	}
	// result selector for multi-result Go functions: f$1(args)
	if i := strings.Index(fname, "$"); i > 0 {
		base, idx := fname[:i], fname[i+1:]
		if fi := x.P.Funcs[fpkg+"."+base]; fi != nil {
			if fc := x.P.Contracts.Funcs[fi.Key]; fc != nil && fc.Flags["pure"] {
				var n int
				fmt.Sscanf(idx, "%d", &n)
				return x.pureUFk(fi, Term{}, args(), n)
			}
			tf := x.termFunOf(fi)
			var n int
			fmt.Sscanf(idx, "%d", &n)
			if tf != nil && tf.ok && n < len(tf.names) {
				as := args()
				sig := fi.Obj.Type().(*types.Signature)
				rt := sig.Results().At(n).Type()
				r := T(app(tf.names[n], as...), w.SortOf(rt))
				r.GoT = rt
				return r
			}
		}
	}
	// method written as a function of its receiver: Name(recv, args...) when exactly one method has this name
	{
		var cands []*FuncInfo
		for k, fi := range x.P.Funcs {
			if strings.HasPrefix(k, fpkg+".(") && strings.HasSuffix(k, ")."+fname) {
				cands = append(cands, fi)
			}
		}
		if len(cands) == 1 {
			fi := cands[0]
			as := args()
			if fc := x.P.Contracts.Funcs[fi.Key]; fc != nil && fc.Flags["pure"] && len(as) > 0 {
				return x.pureUF(fi, as[0], as[1:])
			}
			tf := x.termFunOf(fi)
			if tf != nil && tf.ok {
				sig := fi.Obj.Type().(*types.Signature)
				rt := sig.Results().At(0).Type()
				r := T(app(tf.names[0], as...), w.SortOf(rt))
				r.GoT = rt
				return r
			}
		}
	}
	if fpkg == "math" && fname == "Sqrt" {
		// same symbol as the library model of math.Sqrt
		a := ToReal(args()[0])
		return T("(sqrtU "+a.S+")", SReal)
	}
	if fpkg == "strings" && fname == "TrimSpace" {
		// same term the library model of strings.TrimSpace produces (a window of the argument)
		a := args()[0]
		so := w.SeqSort(SInt)
		w.DeclareFun("trimA", []Sort{so}, SInt)
		w.DeclareFun("trimN", []Sort{so}, SInt)
		r := w.MkSeq(so, w.SeqBase(a), Arith("+", w.SeqOff(a), T("(trimA "+a.S+")", SInt)), T("(trimN "+a.S+")", SInt))
		r.GoT = types.Typ[types.String]
		return r
	}
	libPath := fpkg
	if cur := x.P.ByName[s.pkg]; cur != nil {
		for _, imp := range cur.Imports {
			if imp.Name == fpkg {
				libPath = imp.PkgPath
			}
		}
	}
	if purePkgs[fpkg] || purePkgs[libPath] {
		// library function as the same uninterpreted function the code's calls use
		as := args()
		var sorts []Sort
		for _, a := range as {
			sorts = append(sorts, a.Sort)
		}
		// name$k selects the k-th result (strconv.Atoi$1 = the error)
		resIdx := 0
		if k := strings.LastIndex(fname, "$"); k > 0 {
			if n, err := strconv.Atoi(fname[k+1:]); err == nil {
				resIdx = n
				fname = fname[:k]
			}
		}
		ufPkg := fpkg
		if purePkgs[libPath] {
			ufPkg = libPath
		}
		uf := fmt.Sprintf("uf_%s$%d", sanitize(ufPkg+"."+fname), resIdx)
		for _, so := range sorts {
			uf += "_" + sanitize(string(so))
		}
		rs := SBool
		if cur := x.P.ByName[s.pkg]; cur != nil {
			for _, imp := range cur.Imports {
				if imp.Name == fpkg && imp.Types != nil {
					if fo, ok := imp.Types.Scope().Lookup(fname).(*types.Func); ok {
						if sg := fo.Type().(*types.Signature); resIdx < sg.Results().Len() {
							rs = w.SortOf(sg.Results().At(resIdx).Type())
						}
					}
				}
			}
		}
		w.DeclareFun(uf, sorts, rs)
		return T(app(uf, as...), rs)
	}
	if strings.HasPrefix(fname, "fv_") {
		// function-valued parameter modelled as an uninterpreted predicate (same symbol as at its call sites)
		as := args()
		var sorts []Sort
		for _, a := range as {
			sorts = append(sorts, a.Sort)
		}
		w.DeclareFun(fname+"$0", sorts, SBool)
		return T(app(fname+"$0", as...), SBool)
	}
	unsupported("unknown function %q in contract", key)
	return Term{}
}

// evalMethodCall: recv.Method(args) in a contract — method compiled to a term function.
func (s *Scope) evalMethodCall(f ESel, argsE []Expr) Term {
	x := s.x
	recv := s.Eval(f.X)
	t := derefT(recv.GoT)
	named, ok := t.(*types.Named)
	if !ok {
		unsupported("method call on value without Go type in contract")
	}
	pkgName := named.Obj().Pkg().Name()
	// strings.Builder / bytes.Buffer are modelled as their byte sequence
	if pp := named.Obj().Pkg().Path(); (pp == "strings" && named.Obj().Name() == "Builder") || (pp == "bytes" && named.Obj().Name() == "Buffer") {
		if recv.Sort == x.W.SeqSort(SInt) {
			switch f.Name {
			case "String":
				r := recv
				r.GoT = types.Typ[types.String]
				return r
			case "Bytes":
				r := recv
				r.GoT = types.NewSlice(types.Typ[types.Uint8])
				return r
			case "Len":
				return x.W.SeqLen(recv)
			}
		}
	}
	// m$k selects the k-th result of a pure method
	resIdx := 0
	mname := f.Name
	if k := strings.LastIndex(mname, "$"); k > 0 {
		if n, err := strconv.Atoi(mname[k+1:]); err == nil {
			resIdx = n
			mname = mname[:k]
		}
	}
	for _, star := range []string{"*", ""} {
		key := pkgName + ".(" + star + named.Obj().Name() + ")." + mname
		if fi := x.P.Funcs[key]; fi != nil {
			if fc := x.P.Contracts.Funcs[fi.Key]; fc != nil && fc.Flags["pure"] {
				var as []Term
				for _, a := range argsE {
					as = append(as, s.Eval(a))
				}
				return x.pureUFk(fi, recv, as, resIdx)
			}
			if resIdx != 0 {
				unsupported("result selector on a method that is not flagged pure: %s", key)
			}
			tf := x.termFunOf(fi)
			if tf == nil || !tf.ok {
				unsupported("method %s cannot be used in a contract", key)
			}
			as := []Term{recv}
			for _, a := range argsE {
				as = append(as, s.Eval(a))
			}
			sig := fi.Obj.Type().(*types.Signature)
			rt := sig.Results().At(0).Type()
			r := T(app(tf.names[0], as...), x.W.SortOf(rt))
			r.GoT = rt
			return r
		}
	}
	unsupported("unknown method %s in contract", f.Name)
	return Term{}
}

// defineSpec emits the define-fun for a spec function (dependencies first) and returns its SMT name.
func (x *Exec) defineSpec(sf *SpecFunc) string {
	name := "spec_" + sf.Name
	if x.W.defSeen[name] {
		return name
	}
	x.W.UsedSpecs[sf.Name] = true
	sc := &Scope{x: x, pkg: sf.Pkg, locals: map[string]Term{}}
	var formals []string
	for _, p := range sf.Params {
		tr := x.resolveTypeName(p.Type, sf.Pkg)
		pn := "a_" + sanitize(p.Name)
		formals = append(formals, fmt.Sprintf("(%s %s)", pn, tr.sort))
		v := T(pn, tr.sort)
		v.GoT = tr.goT
		sc.locals[p.Name] = v
	}
	ret := x.resolveTypeName(sf.Ret, sf.Pkg)
	x.noFacts++
	defer func() { x.noFacts-- }()
	if sf.Abstract {
		x.W.defSeen[name] = true
		var sorts []string
		for _, f := range formals {
			parts := strings.SplitN(strings.Trim(f, "()"), " ", 2)
			sorts = append(sorts, parts[1])
		}
		x.W.defs = append(x.W.defs, fmt.Sprintf("(declare-fun %s (%s) %s)", name, strings.Join(sorts, " "), ret.sort))
		return name
	}
	if sf.Opaque && x.unroll == 0 {
		x.W.defSeen[name] = true
		var sorts, names []string
		for _, f := range formals {
			parts := strings.SplitN(strings.Trim(f, "()"), " ", 2)
			names = append(names, parts[0])
			sorts = append(sorts, parts[1])
		}
		body := x.coerce(sc.Eval(sf.Body), ret.sort)
		appl := "(" + name + " " + strings.Join(names, " ") + ")"
		x.W.defs = append(x.W.defs, fmt.Sprintf("(declare-fun %s (%s) %s)", name, strings.Join(sorts, " "), ret.sort))
		x.W.defs = append(x.W.defs, fmt.Sprintf("(assert (forall (%s) (! (= %s %s) :pattern (%s))))", strings.Join(formals, " "), appl, body.S, appl))
		return name
	}
	if sf.Prefix {
		if err := checkPrefixShape(sf); err != "" {
			unsupported("spec %s is declared prefix but %s", sf.Name, err)
		}
	}
	if sf.Rec {
		x.W.defSeen[name] = true // allow self reference
		body := x.coerce(sc.Eval(sf.Body), ret.sort)
		x.W.defs = append(x.W.defs, fmt.Sprintf("(define-fun-rec %s (%s) %s %s)", name, strings.Join(formals, " "), ret.sort, body.S))
		defer func() {
			x.noFacts--
			x.zeroMaskFacts()
			x.noFacts++
		}()
		if sf.Prefix && len(sf.Params) == 2 {
			// stability facts for updates that happened before this fold was first mentioned
			so := x.resolveTypeName(sf.Params[0].Type, sf.Pkg).sort
			for _, pp := range x.W.pendingPrefix {
				if pp[0].Sort == so {
					x.W.Facts = append(x.W.Facts, fmt.Sprintf("(= (%s %s %s) (%s %s %s))", name, pp[0].S, pp[2].S, name, pp[1].S, pp[2].S))
				}
			}
			if isSumShape(sf) {
				for _, pp := range x.W.pendingSum {
					if pp[0].Sort == so {
						x.emitSumUpdate(name, pp[0], pp[1], pp[2])
					}
				}
				for _, pp := range x.W.pendingCat {
					if pp[0].Sort == so {
						x.emitCatSum(name, pp[0], pp[1], pp[2])
					}
				}
				for _, pp := range x.W.pendingPerm {
					if pp[0].Sort == so {
						x.W.Facts = append(x.W.Facts, fmt.Sprintf("(= (%s %s %s) (%s %s %s))", name, pp[0].S, pp[2].S, name, pp[1].S, pp[2].S))
					}
				}
			}
		}
		return name
	}
	body := x.coerce(sc.Eval(sf.Body), ret.sort)
	x.W.Define(name, fmt.Sprintf("(define-fun %s (%s) %s %s)", name, strings.Join(formals, " "), ret.sort, body.S))
	return name
}

// pureUF: application of the uninterpreted function that stands for a Go function whose contract is flagged pure
// (the same symbol call-by-contract uses for its result).
func (x *Exec) pureUF(fi *FuncInfo, recv Term, args []Term) Term { return x.pureUFk(fi, recv, args, 0) }

func (x *Exec) pureUFk(fi *FuncInfo, recv Term, args []Term, k int) Term {
	sig := fi.Obj.Type().(*types.Signature)
	if k >= sig.Results().Len() {
		unsupported("result index %d of %s", k, fi.Key)
	}
	rt := sig.Results().At(k).Type()
	fname := fmt.Sprintf("uf_%s$%d", sanitize(fi.Key), k)
	var as []Term
	var sorts []Sort
	if sig.Recv() != nil {
		recv = x.eraseNoRead(fi, recv)
		as = append(as, recv)
		sorts = append(sorts, x.W.SortOf(sig.Recv().Type()))
	}
	for i, a := range args {
		if i < sig.Params().Len() {
			a = x.coerce(a, x.W.SortOf(sig.Params().At(i).Type()))
			sorts = append(sorts, x.W.SortOf(sig.Params().At(i).Type()))
		} else {
			sorts = append(sorts, a.Sort)
		}
		as = append(as, a)
	}
	x.W.DeclareFun(fname, sorts, x.W.SortOf(rt))
	r := T(app(fname, as...), x.W.SortOf(rt))
	if len(as) == 0 {
		r.S = fname
	}
	r.GoT = rt
	return r
}

// eraseNoRead normalises the receiver of a pure function: fields it provably never reads (noread) and declared
// caches are replaced by their zero value, so that the result is visibly independent of them.
func (x *Exec) eraseNoRead(fi *FuncInfo, recv Term) Term {
	fc := x.P.Contracts.Funcs[fi.Key]
	if fc == nil || recv.S == "" {
		return recv
	}
	d := x.W.datas[recv.Sort]
	if d == nil {
		return recv
	}
	for _, f := range append(append([]string{}, fc.NoRead...), fc.Cache...) {
		for _, df := range d.Fields {
			if df.Name == f {
				var z Term
				if df.GoT != nil {
					z = x.zero(df.GoT)
				}
				if z.Sort != df.Sort {
					z = x.opaqueZero(df.Sort, df.GoT)
				}
				if nv, ok := x.W.WithField(recv, f, z); ok {
					nv.GoT = recv.GoT
					recv = nv
				}
			}
		}
	}
	return recv
}

// opaqueField: deterministic read of a field of an unmodelled (library) struct value.
func (x *Exec) opaqueField(b Term, name string) (Term, bool) {
	st, ok := typeUnder(derefT(b.GoT)).(*types.Struct)
	if !ok {
		return Term{}, false
	}
	get := func(f *types.Var) Term {
		fn := "fld_" + sanitize(string(b.Sort)) + "_" + f.Name()
		so := x.W.SortOf(f.Type())
		x.W.DeclareFun(fn, []Sort{b.Sort}, so)
		r := T("("+fn+" "+b.S+")", so)
		r.GoT = f.Type()
		return r
	}
	for i := 0; i < st.NumFields(); i++ {
		if f := st.Field(i); f.Name() == name {
			return get(f), true
		}
	}
	// promoted through embedded structs
	for i := 0; i < st.NumFields(); i++ {
		f := st.Field(i)
		if !f.Embedded() {
			continue
		}
		if _, ok := derefType(f.Type()).Underlying().(*types.Struct); ok {
			inner := get(f)
			if strings.HasPrefix(string(inner.Sort), "U_") {
				if r, ok := x.opaqueField(inner, name); ok {
					return r, true
				}
			} else if est, ok := derefType(f.Type()).Underlying().(*types.Struct); ok {
				if r, ok := x.fieldByName(inner, est, name); ok {
					return r, true
				}
			}
		}
	}
	return Term{}, false
}

// checkPrefixShape: f(s, n) may use its sequence parameter only as s[n-1] and as the first argument of the recursive
// call f(s, n-1); then f(s, n) depends only on s[0..n) (by induction on n), which is what the append rule relies on.
func checkPrefixShape(sf *SpecFunc) string {
	if len(sf.Params) != 2 {
		return "must have exactly the parameters (sequence, count)"
	}
	sname, nname := sf.Params[0].Name, sf.Params[1].Name
	isNminus1 := func(e Expr) bool {
		b, ok := e.(EBin)
		if !ok || b.Op != "-" {
			return false
		}
		l, lok := b.L.(EIdent)
		r, rok := b.R.(ELit)
		return lok && rok && l.Name == nname && r.Val == "1"
	}
	bad := ""
	var walk func(e Expr)
	walk = func(e Expr) {
		switch v := e.(type) {
		case EIdent:
			if v.Name == sname {
				bad = "uses its sequence parameter outside s[n-1] / the recursive call"
			}
		case EIndex:
			if id, ok := v.X.(EIdent); ok && id.Name == sname {
				if !isNminus1(v.I) {
					bad = "indexes its sequence parameter at something other than n-1"
				}
				return
			}
			walk(v.X)
			walk(v.I)
		case ECall:
			if id, ok := v.Fun.(EIdent); ok && id.Name == sf.Name {
				if len(v.Args) != 2 {
					bad = "recursive call with wrong arity"
					return
				}
				if a0, ok := v.Args[0].(EIdent); !ok || a0.Name != sname {
					bad = "recursive call on a different sequence"
				}
				if !isNminus1(v.Args[1]) {
					bad = "recursive call not on n-1"
				}
				return
			}
			for _, a := range v.Args {
				walk(a)
			}
		case EBin:
			walk(v.L)
			walk(v.R)
		case EUn:
			walk(v.X)
		case ECond:
			walk(v.C)
			walk(v.A)
			walk(v.B)
		case ELet:
			walk(v.Val)
			walk(v.Body)
		case ESel:
			walk(v.X)
		case ESlice:
			walk(v.X)
		case EQuant:
			walk(v.Body)
		}
	}
	walk(sf.Body)
	return bad
}

// prefixFacts: for every prefix spec function over sequences of this sort, f(new, n) == f(old, n) where new agrees
// with old on the first n elements (append at n, store at index n).
func (x *Exec) prefixFacts(newSeq, oldSeq, n Term) {
	if x.termMode || x.noFacts > 0 || x.unroll > 0 {
		return
	}
	x.W.pendingPrefix = append(x.W.pendingPrefix, [3]Term{newSeq, oldSeq, n})
	for _, sf := range x.P.Contracts.Specs {
		if !sf.Prefix || !x.W.defSeen["spec_"+sf.Name] {
			continue // only folds this unit actually talks about (others are added if and when they get defined)
		}
		tr := func() (r typeRes) {
			defer func() {
				if rec := recover(); rec != nil {
					if _, ok := rec.(Unsupported); ok {
						r = typeRes{}
						return
					}
					panic(rec)
				}
			}()
			return x.resolveTypeName(sf.Params[0].Type, sf.Pkg)
		}()
		if tr.sort != newSeq.Sort {
			continue
		}
		name := x.defineSpec(sf)
		x.W.Facts = append(x.W.Facts, fmt.Sprintf("(= (%s %s %s) (%s %s %s))", name, newSeq.S, n.S, name, oldSeq.S, n.S))
	}
}

// isSumShape: f(s,n) = n <= 0 ? 0 : f(s, n-1) + g(s[n-1])  — a commutative fold, invariant under permutations of s[0..n).
func isSumShape(sf *SpecFunc) bool {
	if !sf.Prefix || checkPrefixShape(sf) != "" {
		return false
	}
	c, ok := sf.Body.(ECond)
	if !ok {
		return false
	}
	if z, ok := c.A.(ELit); !ok || z.Val != "0" {
		return false
	}
	b, ok := c.B.(EBin)
	if !ok || b.Op != "+" {
		return false
	}
	call, ok := b.L.(ECall)
	if !ok {
		return false
	}
	id, ok := call.Fun.(EIdent)
	return ok && id.Name == sf.Name
}

// permutationFacts: new is a permutation of old (both of length n): every sum-shaped fold agrees on the whole sequence.
func (x *Exec) permutationFacts(newSeq, oldSeq, n Term) {
	if x.termMode || x.noFacts > 0 {
		return
	}
	x.W.pendingPerm = append(x.W.pendingPerm, [3]Term{newSeq, oldSeq, n})
	for _, sf := range x.P.Contracts.Specs {
		if !isSumShape(sf) || !x.W.defSeen["spec_"+sf.Name] {
			continue
		}
		tr := func() (r typeRes) {
			defer func() {
				if rec := recover(); rec != nil {
					if _, ok := rec.(Unsupported); ok {
						r = typeRes{}
						return
					}
					panic(rec)
				}
			}()
			return x.resolveTypeName(sf.Params[0].Type, sf.Pkg)
		}()
		if tr.sort != newSeq.Sort {
			continue
		}
		name := x.defineSpec(sf)
		x.W.Facts = append(x.W.Facts, fmt.Sprintf("(= (%s %s %s) (%s %s %s))", name, newSeq.S, n.S, name, oldSeq.S, n.S))
	}
}

// mentionsField: does the spec function body select field name anywhere?
func mentionsField(e Expr, name string) bool {
	found := false
	var walk func(e Expr)
	walk = func(e Expr) {
		switch v := e.(type) {
		case ESel:
			if v.Name == name {
				found = true
			}
			walk(v.X)
		case EIndex:
			walk(v.X)
			walk(v.I)
		case ECall:
			for _, a := range v.Args {
				walk(a)
			}
		case EBin:
			walk(v.L)
			walk(v.R)
		case EUn:
			walk(v.X)
		case ECond:
			walk(v.C)
			walk(v.A)
			walk(v.B)
		case ELet:
			walk(v.Val)
			walk(v.Body)
		case ESlice:
			walk(v.X)
		case EQuant:
			walk(v.Body)
		}
	}
	walk(e)
	return found
}

// fieldFrameFacts: newSeq differs from oldSeq only in field `field` of one element: every prefix fold whose body does not
// select that field (and passes elements only to functions of their other fields) has the same value for every length.
func (x *Exec) fieldFrameFacts(newSeq, oldSeq Term, field string) {
	if x.termMode || x.noFacts > 0 {
		return
	}
	for _, sf := range x.P.Contracts.Specs {
		if !sf.Prefix || mentionsField(sf.Body, field) || usesWholeElement(sf) || !x.W.defSeen["spec_"+sf.Name] {
			continue
		}
		tr := func() (r typeRes) {
			defer func() {
				if rec := recover(); rec != nil {
					if _, ok := rec.(Unsupported); ok {
						r = typeRes{}
						return
					}
					panic(rec)
				}
			}()
			return x.resolveTypeName(sf.Params[0].Type, sf.Pkg)
		}()
		if tr.sort != newSeq.Sort {
			continue
		}
		name := x.defineSpec(sf)
		x.W.nfresh++
		q := fmt.Sprintf("n!q%d", x.W.nfresh)
		x.W.Facts = append(x.W.Facts, fmt.Sprintf("(forall ((%s Int)) (! (= (%s %s %s) (%s %s %s)) :pattern ((%s %s %s))))", q, name, newSeq.S, q, name, oldSeq.S, q, name, newSeq.S, q))
	}
}

// usesWholeElement: the fold passes s[n-1] as a whole (not through a field selection) to something, e.g. weight(s[n-1]):
// then a change of any field may matter.
func usesWholeElement(sf *SpecFunc) bool {
	sname := sf.Params[0].Name
	whole := false
	var walk func(e Expr, underSel bool)
	walk = func(e Expr, underSel bool) {
		switch v := e.(type) {
		case EIndex:
			if id, ok := v.X.(EIdent); ok && id.Name == sname {
				if !underSel {
					whole = true
				}
				return
			}
			walk(v.X, false)
			walk(v.I, false)
		case ESel:
			walk(v.X, true)
		case ECall:
			if id, ok := v.Fun.(EIdent); ok && id.Name == sf.Name {
				return
			}
			for _, a := range v.Args {
				walk(a, false)
			}
		case EBin:
			walk(v.L, false)
			walk(v.R, false)
		case EUn:
			walk(v.X, false)
		case ECond:
			walk(v.C, false)
			walk(v.A, false)
			walk(v.B, false)
		case ELet:
			walk(v.Val, false)
			walk(v.Body, false)
		case ESlice:
			walk(v.X, underSel)
		}
	}
	walk(sf.Body, false)
	return whole
}

// sumUpdateFacts: newSeq is oldSeq with element i replaced.  For a sum-shaped fold f (f(s,n) = f(s,n-1) + g(s[n-1])) every
// longer prefix changes by exactly the change of the i-th summand (induction on n; the summands are f(.,i+1)-f(.,i)).
func (x *Exec) sumUpdateFacts(newSeq, oldSeq, i Term) {
	if x.termMode || x.noFacts > 0 || x.unroll > 0 {
		return
	}
	x.W.pendingSum = append(x.W.pendingSum, [3]Term{newSeq, oldSeq, i})
	x.maskUpdateFacts(newSeq, oldSeq, i)
	for _, sf := range x.P.Contracts.Specs {
		if !isSumShape(sf) || !x.W.defSeen["spec_"+sf.Name] {
			continue
		}
		so := x.resolveTypeNameSafe(sf.Params[0].Type, sf.Pkg)
		if so != newSeq.Sort {
			continue
		}
		x.emitSumUpdate("spec_"+sf.Name, newSeq, oldSeq, i)
	}
}

// catSumFacts: c = a ++ b.  Every sum-shaped prefix fold F (F(s,n) = F(s,n-1) + g(s[n-1])) distributes over the
// concatenation: F(c,n) = F(a,n) for n <= len(a), and F(c, len(a)+n) = F(a, len(a)) + F(b, n) for n <= len(b)
// (induction on n; the fold's shape is checked syntactically by isSumShape).
func (x *Exec) catSumFacts(c, a, b Term) {
	if x.termMode || x.noFacts > 0 || x.unroll > 0 || a.Sort != b.Sort || a.Sort != c.Sort {
		return
	}
	x.W.pendingCat = append(x.W.pendingCat, [3]Term{c, a, b})
	for _, sf := range x.P.Contracts.Specs {
		if !isSumShape(sf) || !x.W.defSeen["spec_"+sf.Name] {
			continue
		}
		if so := x.resolveTypeNameSafe(sf.Params[0].Type, sf.Pkg); so != c.Sort {
			continue
		}
		x.emitCatSum("spec_"+sf.Name, c, a, b)
	}
}

func (x *Exec) emitCatSum(name string, c, a, b Term) {
	la, lb := x.W.SeqLen(a), x.W.SeqLen(b)
	x.W.nfresh++
	q := fmt.Sprintf("n!q%d", x.W.nfresh)
	f := func(s Term, n string) string { return fmt.Sprintf("(%s %s %s)", name, s.S, n) }
	x.W.Facts = append(x.W.Facts, fmt.Sprintf("(forall ((%s Int)) (! (=> (and (<= 0 %s) (<= %s %s)) (= %s %s)) :pattern (%s)))",
		q, q, q, la.S, f(c, q), f(a, q), f(c, q)))
	x.W.Facts = append(x.W.Facts, fmt.Sprintf("(forall ((%s Int)) (! (=> (and (<= 0 %s) (<= %s %s)) (= %s (+ %s %s))) :pattern (%s)))",
		q, q, q, lb.S, f(c, "(+ "+la.S+" "+q+")"), f(a, la.S), f(b, q), f(b, q)))
	x.W.Facts = append(x.W.Facts, fmt.Sprintf("(= %s (+ %s %s))", f(c, "(+ "+la.S+" "+lb.S+")"), f(a, la.S), f(b, lb.S)))
	x.W.Facts = append(x.W.Facts, fmt.Sprintf("(= %s (+ %s %s))", f(c, x.W.SeqLen(c).S), f(a, la.S), f(b, lb.S)))
}

// isMaskSumShape: F(a, u, n) = n <= 0 ? 0 : F(a, u, n-1) + g(a[n-1], u[n-1]) - a sum over two parallel sequences
// (e.g. "weight of the blocks not yet used").  Both sequences are only indexed at n-1.
func isMaskSumShape(sf *SpecFunc) bool {
	if !sf.Rec || sf.Prefix || len(sf.Params) != 3 {
		return false
	}
	a, u, n := sf.Params[0].Name, sf.Params[1].Name, sf.Params[2].Name
	c, ok := sf.Body.(ECond)
	if !ok {
		return false
	}
	if z, ok := c.A.(ELit); !ok || z.Val != "0" {
		return false
	}
	b, ok := c.B.(EBin)
	if !ok || b.Op != "+" {
		return false
	}
	isNminus1 := func(e Expr) bool {
		bb, ok := e.(EBin)
		if !ok || bb.Op != "-" {
			return false
		}
		l, lok := bb.L.(EIdent)
		r, rok := bb.R.(ELit)
		return lok && rok && l.Name == n && r.Val == "1"
	}
	call, ok := b.L.(ECall)
	if !ok || len(call.Args) != 3 {
		return false
	}
	if id, ok := call.Fun.(EIdent); !ok || id.Name != sf.Name {
		return false
	}
	if a0, ok := call.Args[0].(EIdent); !ok || a0.Name != a {
		return false
	}
	if a1, ok := call.Args[1].(EIdent); !ok || a1.Name != u {
		return false
	}
	if !isNminus1(call.Args[2]) {
		return false
	}
	good := true
	var walk func(e Expr)
	walk = func(e Expr) {
		switch v := e.(type) {
		case EIdent:
			if v.Name == a || v.Name == u {
				good = false
			}
		case EIndex:
			if id, ok := v.X.(EIdent); ok && (id.Name == a || id.Name == u) {
				if !isNminus1(v.I) {
					good = false
				}
				return
			}
			walk(v.X)
			walk(v.I)
		case ECall:
			if id, ok := v.Fun.(EIdent); ok && id.Name == sf.Name {
				good = false
				return
			}
			for _, x := range v.Args {
				walk(x)
			}
		case EBin:
			walk(v.L)
			walk(v.R)
		case EUn:
			walk(v.X)
		case ECond:
			walk(v.C)
			walk(v.A)
			walk(v.B)
		case ESel:
			walk(v.X)
		case EQuant, ELet, EOld, EEntry, EPrev, ESlice:
			good = false
		}
	}
	walk(b.R)
	return good
}

// zeroMaskFacts: fold induction.  For an all-false mask z, a mask sum F(a, z, n) and a plain sum S(a, n) over the
// same element sort: IF their summands agree at every index (stated through the folds' own increments, which the
// solver must establish by unfolding the two definitions) THEN the folds agree for every n.  Both folds are 0 at
// n <= 0, so this is an instance of induction on n.
func (x *Exec) zeroMaskFacts() {
	if x.termMode || x.noFacts > 0 || x.unroll > 0 || len(x.W.pendingZeroMask) == 0 {
		return
	}
	if x.W.zeroMaskDone == nil {
		x.W.zeroMaskDone = map[string]bool{}
	}
	for _, mf := range x.P.Contracts.Specs {
		if !isMaskSumShape(mf) || !x.W.defSeen["spec_"+mf.Name] {
			continue
		}
		aso := x.resolveTypeNameSafe(mf.Params[0].Type, mf.Pkg)
		uso := x.resolveTypeNameSafe(mf.Params[1].Type, mf.Pkg)
		for _, sf := range x.P.Contracts.Specs {
			if !isSumShape(sf) || !x.W.defSeen["spec_"+sf.Name] {
				continue
			}
			if x.resolveTypeNameSafe(sf.Params[0].Type, sf.Pkg) != aso || aso == "" {
				continue
			}
			for _, z := range x.W.pendingZeroMask {
				if z.Sort != uso {
					continue
				}
				key := mf.Name + "/" + sf.Name + "/" + z.S
				if x.W.zeroMaskDone[key] {
					continue
				}
				x.W.zeroMaskDone[key] = true
				F, S := "spec_"+mf.Name, "spec_"+sf.Name
				x.W.Facts = append(x.W.Facts, fmt.Sprintf(
					"(=> (forall ((a!i %s) (k!i Int)) (=> (>= k!i 0) (= (- (%s a!i (+ k!i 1)) (%s a!i k!i)) (- (%s a!i %s (+ k!i 1)) (%s a!i %s k!i))))) (forall ((a!j %s) (n!j Int)) (! (= (%s a!j n!j) (%s a!j %s n!j)) :pattern ((%s a!j %s n!j)))))",
					aso, S, S, F, z.S, F, z.S, aso, S, F, z.S, F, z.S))
			}
		}
	}
}

// maskUpdateFacts: u' = u[i := v].  For every mask sum F(a, u, n) and every a: prefixes up to i agree, and beyond i
// the totals differ by the change of the i-th summand.
func (x *Exec) maskUpdateFacts(newSeq, oldSeq, i Term) {
	if x.termMode || x.noFacts > 0 || x.unroll > 0 {
		return
	}
	for _, sf := range x.P.Contracts.Specs {
		if !isMaskSumShape(sf) || !x.W.defSeen["spec_"+sf.Name] {
			continue
		}
		if so := x.resolveTypeNameSafe(sf.Params[1].Type, sf.Pkg); so != newSeq.Sort {
			continue
		}
		aso := x.resolveTypeNameSafe(sf.Params[0].Type, sf.Pkg)
		if aso == "" {
			continue
		}
		name := "spec_" + sf.Name
		x.W.nfresh++
		qa := fmt.Sprintf("a!q%d", x.W.nfresh)
		qn := fmt.Sprintf("n!q%d", x.W.nfresh)
		f := func(u Term, n string) string { return fmt.Sprintf("(%s %s %s %s)", name, qa, u.S, n) }
		ip1 := "(+ " + i.S + " 1)"
		delta := fmt.Sprintf("(- (- %s %s) (- %s %s))", f(newSeq, ip1), f(newSeq, i.S), f(oldSeq, ip1), f(oldSeq, i.S))
		x.W.Facts = append(x.W.Facts, fmt.Sprintf("(forall ((%s %s) (%s Int)) (! (= %s (ite (> %s %s) (+ %s %s) %s)) :pattern (%s)))",
			qa, aso, qn, f(newSeq, qn), qn, i.S, f(oldSeq, qn), delta, f(oldSeq, qn), f(newSeq, qn)))
	}
}

func (x *Exec) emitSumUpdate(name string, newSeq, oldSeq, i Term) {
	x.W.nfresh++
	q := fmt.Sprintf("n!q%d", x.W.nfresh)
	ip1 := Arith("+", i, IntLit(1))
	delta := fmt.Sprintf("(- (- (%s %s %s) (%s %s %s)) (- (%s %s %s) (%s %s %s)))", name, newSeq.S, ip1.S, name, newSeq.S, i.S, name, oldSeq.S, ip1.S, name, oldSeq.S, i.S)
	x.W.Facts = append(x.W.Facts, fmt.Sprintf("(forall ((%s Int)) (! (=> (> %s %s) (= (%s %s %s) (+ (%s %s %s) %s))) :pattern ((%s %s %s))))",
		q, q, i.S, name, newSeq.S, q, name, oldSeq.S, q, delta, name, newSeq.S, q))
}

func (x *Exec) resolveTypeNameSafe(t, pkg string) (so Sort) {
	defer func() {
		if rec := recover(); rec != nil {
			if _, ok := rec.(Unsupported); ok {
				so = ""
				return
			}
			panic(rec)
		}
	}()
	return x.resolveTypeName(t, pkg).sort
}
