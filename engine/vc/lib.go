package vc

import (
	"fmt"
	"go/ast"
	"go/token"
	"go/types"
	"strings"
)

// purePkgs: library packages whose functions are deterministic functions of their arguments;
// calls without an exact model become uninterpreted functions (congruence only).
var purePkgs = map[string]bool{"strings": true, "strconv": true, "unicode": true, "unicode/utf8": true, "math": true,
	"path/filepath": true, "path": true, "bytes": true, "unicode/utf16": true, "html": true, "net/url": true, "regexp": false}

// LibModels lists the exact library models (reported in evidence as trusted base).
var LibModels = []string{
	"fmt.Errorf/errors.New: returns a non-nil error",
	"fmt.Sprintf/Sprint: result is an unconstrained string (abstracted)",
	"bytes.Reader: the sequence of bytes not yet read (NewReader, Len, ReadByte)",
	"bytes.Buffer / strings.Builder: append-only byte sequence (WriteByte, Write, WriteString, WriteRune, Bytes, String, Len, Reset)",
	"math.Abs/Min/Max: exact over reals; math.Sqrt: sqrtU(x)>=0 && sqrtU(x)^2==x for x>=0; math.Floor: to_int",
	"unicode.IsSpace: exact for code points < 256, uninterpreted above",
	"utf8.RuneStart(b): exact (b is not in 0x80..0xBF)",
	"strings.ReplaceAll(s, c, w) for a one-byte literal c: byte-for-byte map when w is one byte; otherwise every c in the result ends a copy of w (when c occurs in w only as its last byte), no c at all when c does not occur in w, other bytes are not invented",
	"strings.TrimSpace(root[lo:]): if root is valid UTF-8 and lo is a character boundary of root, the result starts and ends on character boundaries of root",
	"strings.TrimSpace: result is a sub-slice of the argument (same backing array, offsets within bounds); trimmed prefix/suffix bytes satisfy isTrimByte (uninterpreted superset of ASCII space); result does not start/end with an ASCII space byte; whole characters are trimmed (for valid UTF-8 input the result starts and ends on character boundaries)",
	"strings.ToUpper/ToLower: length-preserving for ASCII input; ASCII letters mapped exactly, other ASCII bytes unchanged (non-ASCII: uninterpreted)",
	"sort.Ints: same length, ascending, same set of values, distinctness preserved (consequences of 'sorted permutation'); sort.Strings/Float64s/Slice/SliceStable: same length, a permutation (every sum-shaped fold over the whole slice is preserved), otherwise unconstrained",
	"strings/bytes Index, IndexByte, LastIndex(Byte): result is -1 or a position where the separator fits; for a one-byte separator the byte at the result is that byte and no earlier (later, for Last*) position holds it, and -1 means no position holds it; Contains/HasPrefix/HasSuffix: length consequences, exact for literal prefixes/suffixes of up to 8 bytes",
	"bufio.Scanner.Scan: every successful Scan decreases a non-negative ghost count (a scanner delivers finitely many tokens); token contents are uninterpreted",
	"bufio.Reader: ideal byte stream (ghost content, position, peeked-byte count, sticky failure flag); ReadByte/Peek/UnreadByte/io.ReadFull move the position as documented; reads fail at the end of the data or, stickily, on an I/O error",
	"io.ReadFull/ReadAtLeast: 0 <= n <= len(buf), err == nil exactly when the window was filled (ReadFull); the window's bytes become unknown",
	"Read(p) / ReadAt(p, off) methods of library readers (io.Reader, io.ReaderAt): 0 <= n <= len(p); the buffer's bytes become unknown",
	"Seek(offset, whence) methods of library seekers (io.Seeker): the offset returned without an error is not negative",
	"other strings/strconv/unicode/utf8/math/path functions: uninterpreted deterministic functions of their arguments",
}

func (x *Exec) libCall(key string, fn *types.Func, call *ast.CallExpr, recvExpr ast.Expr, env *Env) ([]Term, bool) {
	if _, inMod := x.P.ByObj[fn]; inMod {
		return nil, false
	}
	info := x.cx.info
	sig := fn.Type().(*types.Signature)
	arg := func(i int) Term {
		var pt types.Type
		if i < sig.Params().Len() {
			pt = sig.Params().At(i).Type()
		}
		return x.evalAs(call.Args[i], env, pt)
	}
	strSort := x.W.SeqSort(SInt)
	switch key {
	case "fmt.Errorf", "errors.New":
		for _, a := range call.Args {
			x.evalMulti(a, env)
		}
		return []Term{True}, true
	case "fmt.Sprintf", "fmt.Sprint", "fmt.Sprintln":
		for _, a := range call.Args {
			x.evalMulti(a, env)
		}
		if x.termMode {
			unsupported("Sprintf in term mode")
		}
		x.W.Note("fmt.Sprintf result abstracted")
		return []Term{x.fresh("sprintf", types.Typ[types.String])}, true
	case "io.ReadFull", "io.ReadAtLeast":
		// n bytes are written into the window buf[0:n]; err == nil exactly when the window was filled
		x.evalMulti(call.Args[0], env)
		dst := x.eval(call.Args[1], env)
		if x.termMode {
			unsupported("io.ReadFull in term mode")
		}
		n := x.W.Fresh("nread", SInt)
		x.W.AddFact(env.pc, And(Cmp(">=", n, IntLit(0)), Cmp("<=", n, x.W.SeqLen(dst))))
		x.overwriteWindow(call.Args[1], dst, env)
		if rt := info.TypeOf(call.Args[0]); rt != nil && types.TypeString(rt, nil) == "*bufio.Reader" && isAddressable(call.Args[0]) {
			cur := x.eval(call.Args[0], env)
			x.bufioDecl(cur.Sort)
			nv := x.fresh("brd", rt)
			x.bufioInv(nv, env)
			x.W.AddFact(env.pc, And(Eq(x.rdData(nv), x.rdData(cur)), Eq(x.rdPos(nv), Arith("+", x.rdPos(cur), n)), Eq(x.rdBuf(nv), IntLit(0)), Implies(x.rdBad(cur), x.rdBad(nv))))
			x.assign(call.Args[0], nv, env)
		}
		if key == "io.ReadAtLeast" {
			x.evalMulti(call.Args[2], env)
			e := x.W.Fresh("rderr", SBool)
			return []Term{n, e}, true
		}
		return []Term{n, Not(Eq(n, x.W.SeqLen(dst)))}, true
	case "bytes.(*Buffer).WriteByte", "strings.(*Builder).WriteByte":
		cur := x.eval(recvExpr, env)
		v := arg(0)
		ln := x.W.SeqLen(cur)
		nv := x.W.MkSeq(cur.Sort, Store(x.W.SeqBase(cur), Arith("+", x.W.SeqOff(cur), ln), v), x.W.SeqOff(cur), Arith("+", ln, IntLit(1)))
		nv.GoT = cur.GoT
		nv = x.seqUpdateFacts(nv, cur, ln, v)
		x.assignRecv(recvExpr, nv, env)
		return []Term{False}, true
	case "bytes.(*Buffer).Write", "bytes.(*Buffer).WriteString", "strings.(*Builder).WriteString", "strings.(*Builder).Write":
		cur := x.eval(recvExpr, env)
		v := arg(0)
		nv := x.concat(cur, v, env)
		nv.GoT = cur.GoT
		x.assignRecv(recvExpr, nv, env)
		return []Term{x.W.SeqLen(v), False}, true
	case "strings.(*Builder).WriteRune", "bytes.(*Buffer).WriteRune":
		cur := x.eval(recvExpr, env)
		v := arg(0)
		enc := x.runeToString(v, env)
		nv := x.concat(cur, enc, env)
		nv.GoT = cur.GoT
		x.assignRecv(recvExpr, nv, env)
		return []Term{x.W.SeqLen(enc), False}, true
	case "bytes.(*Buffer).Bytes", "bytes.(*Buffer).String", "strings.(*Builder).String":
		cur := x.eval(recvExpr, env)
		cur.GoT = info.TypeOf(call)
		return []Term{cur}, true
	case "bytes.(*Buffer).Len", "strings.(*Builder).Len":
		cur := x.eval(recvExpr, env)
		return []Term{x.W.SeqLen(cur)}, true
	case "bytes.(*Buffer).Reset", "strings.(*Builder).Reset":
		cur := x.eval(recvExpr, env)
		nv := x.W.MkSeq(cur.Sort, x.W.SeqBase(cur), IntLit(0), IntLit(0))
		nv.GoT = cur.GoT
		x.assignRecv(recvExpr, nv, env)
		return nil, true
	case "bufio.NewReader", "bufio.NewReaderSize":
		// a bufio.Reader is an ideal byte stream: ghost content rdData, position rdPos, and a count rdBuf of bytes
		// a successful Peek has guaranteed to be available.  Every operation yields a new opaque value.
		for _, a := range call.Args {
			x.evalMulti(a, env)
		}
		if x.termMode {
			unsupported("bufio.NewReader in term mode")
		}
		r := x.fresh("brd", info.TypeOf(call))
		x.bufioDecl(r.Sort)
		x.W.AddFact(env.pc, And(Eq(x.rdPos(r), IntLit(0)), Eq(x.rdBuf(r), IntLit(0)), Not(x.isNilPtr(r)), Not(x.rdBad(r))))
		x.bufioInv(r, env)
		return []Term{r}, true
	case "bufio.(*Reader).ReadByte":
		if x.termMode {
			unsupported("bufio in term mode")
		}
		cur := x.eval(recvExpr, env)
		x.bufioDecl(cur.Sort)
		nv := x.fresh("brd", info.TypeOf(recvExpr))
		x.bufioInv(nv, env)
		ok := x.W.Fresh("rdok", SBool)
		errT := x.W.Fresh("rderr", SBool)
		b := x.W.Fresh("rdbyte", SInt)
		data := x.rdData(cur)
		pos := x.rdPos(cur)
		atEnd := Cmp(">=", pos, x.W.SeqLen(data))
		x.W.AddFact(env.pc, And(
			Eq(errT, Not(ok)),
			Eq(x.rdData(nv), data),
			Implies(ok, And(Not(atEnd), Eq(x.rdPos(nv), Arith("+", pos, IntLit(1))), Eq(b, x.W.SeqAt(data, pos)),
				Eq(x.rdBuf(nv), Ite(Cmp(">=", x.rdBuf(cur), IntLit(1)), Arith("-", x.rdBuf(cur), IntLit(1)), IntLit(0))))),
			Implies(Not(ok), And(Eq(x.rdPos(nv), pos), Eq(x.rdBuf(nv), x.rdBuf(cur)), Eq(b, IntLit(0)))),
			Implies(And(Cmp(">=", x.rdBuf(cur), IntLit(1)), Not(x.rdBad(cur))), ok),
			Implies(atEnd, Not(ok)),
			Implies(x.rdBad(cur), Not(ok)),
			Eq(x.rdBad(nv), Or(x.rdBad(cur), And(Not(ok), Not(atEnd)))),
			And(Cmp("<=", IntLit(0), b), Cmp("<=", b, IntLit(255)))))
		x.eofFacts(errT, atEnd, env)
		x.assignRecv(recvExpr, nv, env)
		b.GoT = types.Typ[types.Uint8]
		return []Term{b, errT}, true
	case "bufio.(*Reader).Peek":
		if x.termMode {
			unsupported("bufio in term mode")
		}
		cur := x.eval(recvExpr, env)
		x.bufioDecl(cur.Sort)
		n := arg(0)
		nv := x.fresh("brd", info.TypeOf(recvExpr))
		x.bufioInv(nv, env)
		errT := x.W.Fresh("pkerr", SBool)
		res := x.fresh("peeked", info.TypeOf(call).(*types.Tuple).At(0).Type())
		data := x.rdData(cur)
		pos := x.rdPos(cur)
		x.W.nfresh++
		q := fmt.Sprintf("q!%d", x.W.nfresh)
		qi := T(q, SInt)
		content := T(fmt.Sprintf("(forall ((%s Int)) (! (=> (and (<= 0 %s) (< %s %s)) (= %s %s)) :pattern (%s)))", q, q, q, x.W.SeqLen(res).S,
			x.W.SeqAt(res, qi).S, x.W.SeqAt(data, Arith("+", pos, qi)).S, x.W.SeqAt(res, qi).S), SBool)
		short := Cmp(">", Arith("+", pos, n), x.W.SeqLen(data))
		x.W.AddFact(env.pc, And(
			Eq(x.rdData(nv), data), Eq(x.rdPos(nv), pos), content,
			Cmp("<=", Arith("+", pos, x.W.SeqLen(res)), x.W.SeqLen(data)),
			Implies(Not(errT), And(Eq(x.W.SeqLen(res), n), Cmp(">=", x.rdBuf(nv), n), Cmp(">=", x.rdBuf(nv), x.rdBuf(cur)))),
			Implies(errT, And(Cmp("<", x.W.SeqLen(res), n), Cmp(">=", x.rdBuf(nv), x.rdBuf(cur)))),
			Implies(short, errT),
			Implies(x.rdBad(cur), errT),
			Eq(x.rdBad(nv), Or(x.rdBad(cur), And(errT, Not(short)))),
			Implies(And(Cmp(">=", x.rdBuf(cur), n), Cmp(">=", n, IntLit(0)), Not(x.rdBad(cur))), Not(errT))))
		x.eofFacts(errT, short, env)
		x.assignRecv(recvExpr, nv, env)
		return []Term{res, errT}, true
	case "bufio.(*Reader).UnreadByte":
		if x.termMode {
			unsupported("bufio in term mode")
		}
		cur := x.eval(recvExpr, env)
		x.bufioDecl(cur.Sort)
		nv := x.fresh("brd", info.TypeOf(recvExpr))
		x.bufioInv(nv, env)
		errT := x.W.Fresh("urerr", SBool)
		pos := x.rdPos(cur)
		x.W.AddFact(env.pc, And(
			Eq(x.rdData(nv), x.rdData(cur)),
			Implies(Not(errT), And(Cmp(">=", pos, IntLit(1)), Eq(x.rdPos(nv), Arith("-", pos, IntLit(1))), Eq(x.rdBuf(nv), Arith("+", x.rdBuf(cur), IntLit(1))))),
			Implies(errT, And(Eq(x.rdPos(nv), pos), Eq(x.rdBuf(nv), x.rdBuf(cur)))),
			Eq(x.rdBad(nv), x.rdBad(cur))))
		x.assignRecv(recvExpr, nv, env)
		return []Term{errT}, true
	case "bufio.(*Scanner).Scan":
		// a Scanner delivers finitely many tokens: every successful Scan decreases the ghost count scRem
		if x.termMode {
			unsupported("bufio.Scanner in term mode")
		}
		cur := x.eval(recvExpr, env)
		x.W.DeclareFun("scRem", []Sort{cur.Sort}, SInt)
		nv := x.fresh("scn", info.TypeOf(recvExpr))
		ok := x.W.Fresh("scanok", SBool)
		rem := func(t Term) Term { return T("(scRem "+t.S+")", SInt) }
		x.W.AddFact(env.pc, And(Cmp(">=", rem(cur), IntLit(0)), Cmp(">=", rem(nv), IntLit(0)), Implies(ok, Cmp("<", rem(nv), rem(cur))), Implies(Not(ok), Eq(rem(nv), rem(cur))), Not(x.isNilPtr(nv))))
		x.assignRecv(recvExpr, nv, env)
		return []Term{ok}, true
	case "bytes.NewReader":
		// a bytes.Reader is modelled as the sequence of bytes not yet read
		v := arg(0)
		v.GoT = info.TypeOf(call)
		return []Term{v}, true
	case "bytes.(*Reader).Len":
		cur := x.eval(recvExpr, env)
		return []Term{x.W.SeqLen(cur)}, true
	case "bytes.(*Reader).ReadByte":
		cur := x.eval(recvExpr, env)
		empty := Cmp("<=", x.W.SeqLen(cur), IntLit(0))
		b := x.W.SeqAt(cur, IntLit(0))
		b.GoT = types.Typ[types.Uint8]
		x.typeFactsIf(b, b.GoT, env)
		rest := x.W.MkSeq(cur.Sort, x.W.SeqBase(cur), Arith("+", x.W.SeqOff(cur), IntLit(1)), Arith("-", x.W.SeqLen(cur), IntLit(1)))
		rest.GoT = cur.GoT
		if !x.termMode {
			rest = x.sliceFacts(rest, cur, IntLit(1))
		}
		nv := Ite(empty, cur, rest)
		nv.GoT = cur.GoT
		x.assignRecv(recvExpr, nv, env)
		return []Term{Ite(empty, IntLit(0), b), empty}, true
	case "strings.(*Builder).Grow", "bytes.(*Buffer).Grow":
		arg(0)
		return nil, true
	case "math.Abs":
		return []Term{T("(absR "+ToReal(arg(0)).S+")", SReal)}, true
	case "math.Min":
		return []Term{T("(minR "+ToReal(arg(0)).S+" "+ToReal(arg(1)).S+")", SReal)}, true
	case "math.Max":
		return []Term{T("(maxR "+ToReal(arg(0)).S+" "+ToReal(arg(1)).S+")", SReal)}, true
	case "math.Sqrt":
		a := ToReal(arg(0))
		r := T("(sqrtU "+a.S+")", SReal)
		if !x.termMode {
			x.W.AddFact(env.pc, Implies(Cmp(">=", a, T("0.0", SReal)), And(Cmp(">=", r, T("0.0", SReal)), Eq(T("(* "+r.S+" "+r.S+")", SReal), a))))
		}
		return []Term{r}, true
	case "math.Floor":
		a := ToReal(arg(0))
		return []Term{T("(to_real (to_int "+a.S+"))", SReal)}, true
	case "unicode/utf8.RuneStart":
		b := arg(0)
		return []Term{Not(And(Cmp(">=", b, IntLit(0x80)), Cmp("<=", b, IntLit(0xBF))))}, true
	case "unicode.IsSpace":
		r := arg(0)
		x.W.DeclareFun("isSpaceHi", []Sort{SInt}, SBool)
		lo := Or(Eq(r, IntLit(9)), Eq(r, IntLit(10)), Eq(r, IntLit(11)), Eq(r, IntLit(12)), Eq(r, IntLit(13)), Eq(r, IntLit(32)), Eq(r, IntLit(0x85)), Eq(r, IntLit(0xA0)))
		return []Term{Ite(Cmp("<", r, IntLit(256)), lo, T("(isSpaceHi "+r.S+")", SBool))}, true
	case "strings.TrimSpace":
		if x.termMode {
			break
		}
		s := arg(0)
		// deterministic: the trimmed window is a function of the argument
		x.W.DeclareFun("trimA", []Sort{strSort}, SInt)
		x.W.DeclareFun("trimN", []Sort{strSort}, SInt)
		a := x.named("trimA", T("(trimA "+s.S+")", SInt))
		n := x.named("trimN", T("(trimN "+s.S+")", SInt))
		r := x.W.MkSeq(strSort, x.W.SeqBase(s), Arith("+", x.W.SeqOff(s), a), n)
		r.GoT = types.Typ[types.String]
		r = x.sliceFacts(r, s, a)
		x.W.DeclareFun("isTrimByte", []Sort{SInt}, SBool)
		x.W.nfresh++
		q := fmt.Sprintf("q!%d", x.W.nfresh)
		qi := T(q, SInt)
		ln := x.W.SeqLen(s)
		outside := And(Cmp("<=", IntLit(0), qi), Cmp("<", qi, ln), Or(Cmp("<", qi, a), Cmp(">=", qi, Arith("+", a, n))))
		isAsciiSp := func(b Term) Term {
			return Or(Eq(b, IntLit(9)), Eq(b, IntLit(10)), Eq(b, IntLit(11)), Eq(b, IntLit(12)), Eq(b, IntLit(13)), Eq(b, IntLit(32)))
		}
		x.W.AddFact(env.pc, And(Cmp(">=", a, IntLit(0)), Cmp(">=", n, IntLit(0)), Cmp("<=", Arith("+", a, n), ln),
			T("(forall (("+q+" Int)) "+Implies(outside, T("(isTrimByte "+x.W.SeqAt(s, qi).S+")", SBool)).S+")", SBool),
			Implies(Cmp(">", n, IntLit(0)), And(Not(isAsciiSp(x.W.SeqAt(r, IntLit(0)))), Not(isAsciiSp(x.W.SeqAt(r, Arith("-", n, IntLit(1)))))))))
		// the same statement over absolute positions of the backing array (matches s'[q] of any other window s' of the
		// same array: conservation arguments talk about positions of the whole text)
		{
			x.W.nfresh++
			kq := fmt.Sprintf("k!%d", x.W.nfresh)
			ki := T(kq, SInt)
			off := x.W.SeqOff(s)
			sel := Select(x.W.SeqBase(s), ki)
			outsideAbs := And(Cmp("<=", off, ki), Cmp("<", ki, Arith("+", off, ln)), Or(Cmp("<", ki, Arith("+", off, a)), Cmp(">=", ki, Arith("+", off, Arith("+", a, n)))))
			x.W.AddFact(env.pc, T("(forall (("+kq+" Int)) (! "+Implies(outsideAbs, T("(isTrimByte "+sel.S+")", SBool)).S+" :pattern ("+sel.S+")))", SBool))
		}
		x.W.Facts = append(x.W.Facts, "(forall ((b Int)) (=> (or (= b 9) (= b 10) (= b 11) (= b 12) (= b 13) (= b 32)) (isTrimByte b)))")
		x.W.Facts = append(x.W.Facts, "(forall ((b Int)) (! (=> (isTrimByte b) (or (<= b 32) (>= b 128))) :pattern ((isTrimByte b))))")
		if sf := x.P.Contracts.Specs["validUTF8"]; sf != nil && len(sf.Params) == 2 {
			// TrimSpace removes whole characters: for valid UTF-8 input the result starts and ends on character boundaries
			name := x.defineSpec(sf)
			stSort := x.W.SeqSort(SInt)
			x.W.nfresh++
			qs := fmt.Sprintf("st!q%d", x.W.nfresh)
			stv := T(qs, stSort)
			app := "(" + name + " " + s.S + " " + qs + ")"
			x.W.AddFact(env.pc, T(fmt.Sprintf("(forall ((%s %s)) (! (=> %s (and (= %s 0) (= %s 0))) :pattern (%s)))", qs, stSort, app,
				x.W.SeqAt(stv, a).S, x.W.SeqAt(stv, Arith("+", a, n)).S, app), SBool))
			// the argument is a suffix root[lo:] of a string: a suffix of valid UTF-8 that starts on a character boundary
			// is valid UTF-8 and its boundaries are boundaries of the root (the automaton states are the same, shifted)
			if se, ok := ast.Unparen(call.Args[0]).(*ast.SliceExpr); ok && se.High == nil && se.Low != nil && !se.Slice3 {
				x.quiet++
				root := x.eval(se.X, env)
				lo := x.eval(se.Low, env)
				x.quiet--
				if x.W.IsSeq(root.Sort) && root.Sort == s.Sort {
					appR := "(" + name + " " + root.S + " " + qs + ")"
					x.W.AddFact(env.pc, T(fmt.Sprintf("(forall ((%s %s)) (! (=> (and %s (= %s 0)) (and (= %s 0) (= %s 0))) :pattern (%s)))", qs, stSort, appR,
						x.W.SeqAt(stv, lo).S, x.W.SeqAt(stv, Arith("+", lo, a)).S, x.W.SeqAt(stv, Arith("+", lo, Arith("+", a, n))).S, appR), SBool))
				}
			}
		}
		return []Term{r}, true
	case "strings.ReplaceAll":
		if x.termMode {
			break
		}
		src := arg(0)
		oldS, newS := arg(1), arg(2)
		on, ok1 := litLen(x.W, oldS)
		nn, ok2 := litLen(x.W, newS)
		if !ok1 || !ok2 || on != 1 {
			break
		}
		oldB := x.W.SeqAt(oldS, IntLit(0))
		res := x.fresh("repl", types.Typ[types.String])
		x.W.nfresh++
		q := fmt.Sprintf("q!%d", x.W.nfresh)
		qi := T(q, SInt)
		inR := And(Cmp("<=", IntLit(0), qi), Cmp("<", qi, x.W.SeqLen(res)))
		if nn == 1 {
			// byte-for-byte substitution: same length, exact map
			nb := x.W.SeqAt(newS, IntLit(0))
			x.W.AddFact(env.pc, And(Eq(x.W.SeqLen(res), x.W.SeqLen(src)),
				T("(forall (("+q+" Int)) (! "+Implies(inR, Eq(x.W.SeqAt(res, qi), Ite(Eq(x.W.SeqAt(src, qi), oldB), nb, x.W.SeqAt(src, qi)))).S+" :pattern ("+x.W.SeqAt(res, qi).S+")))", SBool)))
			return []Term{res}, true
		}
		// replacement of one byte c by a literal w: every c in the result is the image of an occurrence inside a copy of w
		// (stated when c occurs in w only as its last byte, or not at all)
		last := x.W.SeqAt(newS, IntLit(int64(nn-1)))
		var prefixEq []Term
		for j := 0; j < nn-1; j++ {
			prefixEq = append(prefixEq, Eq(x.W.SeqAt(res, Arith("-", qi, IntLit(int64(nn-1-j)))), x.W.SeqAt(newS, IntLit(int64(j)))))
		}
		var noneInPrefix []Term
		for j := 0; j < nn-1; j++ {
			noneInPrefix = append(noneInPrefix, Not(Eq(x.W.SeqAt(newS, IntLit(int64(j))), oldB)))
		}
		cond := And(append(noneInPrefix, Eq(last, oldB))...)
		body := Implies(And(inR, Eq(x.W.SeqAt(res, qi), oldB)), And(append([]Term{Cmp(">=", qi, IntLit(int64(nn-1)))}, prefixEq...)...))
		x.W.AddFact(env.pc, Implies(cond, T("(forall (("+q+" Int)) (! "+body.S+" :pattern ("+x.W.SeqAt(res, qi).S+")))", SBool)))
		var noneAtAll []Term
		for j := 0; j < nn; j++ {
			noneAtAll = append(noneAtAll, Not(Eq(x.W.SeqAt(newS, IntLit(int64(j))), oldB)))
		}
		x.W.AddFact(env.pc, Implies(And(noneAtAll...), T("(forall (("+q+" Int)) (! "+Implies(inR, Not(Eq(x.W.SeqAt(res, qi), oldB))).S+" :pattern ("+x.W.SeqAt(res, qi).S+")))", SBool)))
		// bytes other than c that do not occur in w are neither invented nor lost: stated only as "not invented"
		x.W.nfresh++
		q2 := fmt.Sprintf("q!%d", x.W.nfresh)
		qj := T(q2, SInt)
		var notInNew []Term
		for j := 0; j < nn; j++ {
			notInNew = append(notInNew, Not(Eq(x.W.SeqAt(res, qi), x.W.SeqAt(newS, IntLit(int64(j))))))
		}
		inv := Implies(And(append([]Term{inR}, notInNew...)...), T("(exists (("+q2+" Int)) "+And(Cmp("<=", IntLit(0), qj), Cmp("<", qj, x.W.SeqLen(src)), Eq(x.W.SeqAt(src, qj), x.W.SeqAt(res, qi))).S+")", SBool))
		x.W.AddFact(env.pc, T("(forall (("+q+" Int)) (! "+inv.S+" :pattern ("+x.W.SeqAt(res, qi).S+")))", SBool))
		return []Term{res}, true
	case "strings.ToUpper", "strings.ToLower":
		if x.termMode {
			break
		}
		s := arg(0)
		fname := "uf_" + sanitize(key) + "$0_" + sanitize(string(strSort))
		x.W.DeclareFun(fname, []Sort{strSort}, strSort)
		r := T("("+fname+" "+s.S+")", strSort)
		r.GoT = types.Typ[types.String]
		x.W.nfresh++
		q := fmt.Sprintf("q!%d", x.W.nfresh)
		qi := T(q, SInt)
		x.W.DeclareFun("isAsciiStr", []Sort{strSort}, SBool)
		ascii := T("(isAsciiStr "+s.S+")", SBool)
		b := x.W.SeqAt(s, qi)
		var mapped Term
		if key == "strings.ToUpper" {
			mapped = Ite(And(Cmp(">=", b, IntLit('a')), Cmp("<=", b, IntLit('z'))), Arith("-", b, IntLit(32)), b)
		} else {
			mapped = Ite(And(Cmp(">=", b, IntLit('A')), Cmp("<=", b, IntLit('Z'))), Arith("+", b, IntLit(32)), b)
		}
		inR := And(Cmp("<=", IntLit(0), qi), Cmp("<", qi, x.W.SeqLen(s)))
		x.W.AddFact(env.pc, And(Cmp(">=", x.W.SeqLen(r), IntLit(0)), Cmp(">=", x.W.SeqOff(r), IntLit(0)),
			Implies(ascii, And(Eq(x.W.SeqLen(r), x.W.SeqLen(s)),
				T("(forall (("+q+" Int)) "+Implies(inR, Eq(x.W.SeqAt(r, qi), mapped)).S+")", SBool))),
			T("(= "+ascii.S+" (forall (("+q+" Int)) "+Implies(inR, Cmp("<", b, IntLit(128))).S+"))", SBool)))
		return []Term{r}, true
	case "sort.Ints", "sort.Strings", "sort.Float64s", "sort.Slice", "sort.SliceStable":
		if x.termMode {
			break
		}
		cur := x.eval(call.Args[0], env)
		nb := x.W.Fresh("sorted", x.W.SeqBase(cur).Sort)
		nv, _ := x.W.WithField(cur, "base", nb)
		nv.GoT = cur.GoT
		if key == "sort.Ints" {
			// trusted contract: sorted permutation — stated as: ascending; same set of values; distinctness preserved
			c := x.W.Fresh("srt", nv.Sort)
			c.GoT = nv.GoT
			x.W.Facts = append(x.W.Facts, Eq(c, nv).S)
			n := x.W.SeqLen(cur)
			qa, qb := T("qa", SInt), T("qb", SInt)
			inR := func(q Term) Term { return And(Cmp("<=", IntLit(0), q), Cmp("<", q, n)) }
			asc := fmt.Sprintf("(forall ((qa Int) (qb Int)) (! (=> (and %s %s (< qa qb)) (<= %s %s)) :pattern (%s %s)))", inR(qa).S, inR(qb).S, x.W.SeqAt(c, qa).S, x.W.SeqAt(c, qb).S, x.W.SeqAt(c, qa).S, x.W.SeqAt(c, qb).S)
			sub1 := fmt.Sprintf("(forall ((qa Int)) (! (=> %s (exists ((qb Int)) (and %s (= %s %s)))) :pattern (%s)))", inR(qa).S, inR(qb).S, x.W.SeqAt(cur, qb).S, x.W.SeqAt(c, qa).S, x.W.SeqAt(c, qa).S)
			sub2 := fmt.Sprintf("(forall ((qa Int)) (! (=> %s (exists ((qb Int)) (and %s (= %s %s)))) :pattern (%s)))", inR(qa).S, inR(qb).S, x.W.SeqAt(c, qb).S, x.W.SeqAt(cur, qa).S, x.W.SeqAt(cur, qa).S)
			distinctOld := fmt.Sprintf("(forall ((qa Int) (qb Int)) (=> (and %s %s (< qa qb)) (not (= %s %s))))", inR(qa).S, inR(qb).S, x.W.SeqAt(cur, qa).S, x.W.SeqAt(cur, qb).S)
			distinctNew := fmt.Sprintf("(forall ((qa Int) (qb Int)) (! (=> (and %s %s (< qa qb)) (not (= %s %s))) :pattern (%s %s)))", inR(qa).S, inR(qb).S, x.W.SeqAt(c, qa).S, x.W.SeqAt(c, qb).S, x.W.SeqAt(c, qa).S, x.W.SeqAt(c, qb).S)
			x.W.AddFact(env.pc, T("(and "+asc+" "+sub1+" "+sub2+" (=> "+distinctOld+" "+distinctNew+"))", SBool))
			x.assign(call.Args[0], c, env)
			return nil, true
		}
		x.W.Note(key + ": result abstracted (same length, a permutation: sum-shaped folds preserved)")
		cs := x.W.Fresh("srt", nv.Sort)
		cs.GoT = nv.GoT
		x.W.Facts = append(x.W.Facts, Eq(cs, nv).S)
		x.permutationFacts(cs, cur, x.W.SeqLen(cur))
		x.assign(call.Args[0], cs, env)
		return nil, true
	}
	pkg := ""
	if fn.Pkg() != nil {
		pkg = fn.Pkg().Path()
	}
	if purePkgs[pkg] && sig.Recv() == nil && sig.Results().Len() >= 1 {
		var as []Term
		var sorts []Sort
		allModelled := true
		for i := range call.Args {
			v := arg(i)
			as = append(as, v)
			sorts = append(sorts, v.Sort)
		}
		if sig.Variadic() && call.Ellipsis.IsValid() {
			allModelled = false // f(xs...): the slice is not expanded
		}
		if allModelled {
			var out []Term
			for i := 0; i < sig.Results().Len(); i++ {
				rt := sig.Results().At(i).Type()
				fname := fmt.Sprintf("uf_%s$%d", sanitize(key), i)
				for _, s := range sorts {
					fname += "_" + sanitize(string(s))
				}
				x.W.DeclareFun(fname, sorts, x.W.SortOf(rt))
				r := T(app(fname, as...), x.W.SortOf(rt))
				if len(as) == 0 {
					r.S = fname
				}
				r.GoT = rt
				x.typeFactsIf(r, rt, env)
				out = append(out, r)
			}
			x.W.Note("library call as uninterpreted function: " + key)
			if !x.termMode && x.noFacts == 0 {
				x.indexFacts(key, as, out, env)
			}
			return out, true
		}
	}
	if x.termMode {
		unsupported("library call %s in term mode", key)
	}
	// unknown library function: havoc results; receivers of library types are opaque anyway
	if strings.HasPrefix(pkg, "") {
		for _, a := range call.Args {
			x.evalMulti(a, env)
		}
		// a slice argument is a buffer the callee may fill (io.Reader.Read, io.ReaderAt.ReadAt, ...): same header,
		// unknown elements afterwards
		if !x.termMode {
			for _, a := range call.Args {
				if t := info.TypeOf(a); t != nil {
					if sl, isSl := t.Underlying().(*types.Slice); isSl {
						if b, isB := sl.Elem().Underlying().(*types.Basic); isB && b.Kind() == types.Uint8 {
							root := a
							for {
								if se, ok := ast.Unparen(root).(*ast.SliceExpr); ok {
									root = se.X
									continue
								}
								break
							}
							if isAddressable(root) {
								func() {
									defer func() {
										if r := recover(); r != nil {
											if _, ok := r.(Unsupported); !ok {
												panic(r)
											}
										}
									}()
									x.overwriteWindow(a, x.eval(a, env), env)
								}()
							}
						}
					}
				}
			}
		}
		// anything reachable through a pointer argument may be written by the library
		for _, a := range call.Args {
			if u, ok := ast.Unparen(a).(*ast.UnaryExpr); ok && u.Op == token.AND && isAddressable(u.X) {
				x.assign(u.X, x.fresh("hv", info.TypeOf(u.X)), env)
			} else if t := info.TypeOf(a); t != nil {
				if _, isPtr := t.Underlying().(*types.Pointer); isPtr && isAddressable(a) {
					if _, isId := ast.Unparen(a).(*ast.Ident); !isId {
						x.assign(a, x.fresh("hv", t), env)
					} else {
						x.assign(a, x.fresh("hv", t), env)
					}
				}
			}
		}
		var out []Term
		for i := 0; i < sig.Results().Len(); i++ {
			out = append(out, x.fresh(fmt.Sprintf("%s_r%d", fn.Name(), i), sig.Results().At(i).Type()))
		}
		// io.Reader / io.ReaderAt: the count returned is within the buffer handed in
		if (fn.Name() == "Read" || fn.Name() == "ReadAt") && len(call.Args) >= 1 && len(out) == 2 && out[0].Sort == SInt && !x.termMode {
			if t := info.TypeOf(call.Args[0]); t != nil {
				if sl, isSl := t.Underlying().(*types.Slice); isSl {
					if b, isB := sl.Elem().Underlying().(*types.Basic); isB && b.Kind() == types.Uint8 {
						x.quiet++
						buf := x.eval(call.Args[0], env)
						x.quiet--
						x.W.AddFact(env.pc, And(Cmp(">=", out[0], IntLit(0)), Cmp("<=", out[0], x.W.SeqLen(buf))))
					}
				}
			}
		}
		// io.Seeker: a successful Seek returns the new offset, which is not negative
		if fn.Name() == "Seek" && len(out) == 2 && out[0].Sort == SInt && out[1].Sort == SBool && !x.termMode {
			x.W.AddFact(env.pc, Implies(Not(out[1]), Cmp(">=", out[0], IntLit(0))))
		}
		x.W.Note("library call abstracted (results and pointer arguments havocked): " + key)
		if recvExpr != nil && isAddressable(recvExpr) {
			if rv := sig.Recv(); rv != nil {
				if _, isPtr := rv.Type().(*types.Pointer); isPtr {
					if rt := info.TypeOf(recvExpr); rt != nil {
						if _, isIface := rt.Underlying().(*types.Interface); !isIface && !isLibraryStruct(derefType(rt)) {
							x.assign(recvExpr, x.fresh("hv", rt), env)
						}
					}
				}
			}
		}
		return out, true
	}
	return nil, false
}

// overwriteWindow: an external callee wrote unknown bytes into the window `dst` of the slice rooted at the
// variable under dstExpr: the root keeps offset and length, elements outside the window are unchanged.
func (x *Exec) overwriteWindow(dstExpr ast.Expr, dst Term, env *Env) {
	root := dstExpr
	for {
		if se, ok := ast.Unparen(root).(*ast.SliceExpr); ok {
			root = se.X
			continue
		}
		break
	}
	rv := x.eval(root, env)
	if !x.W.IsSeq(rv.Sort) {
		unsupported("external write into non-slice root")
	}
	es := x.W.SeqElem(rv.Sort)
	nb := x.W.Fresh("wr", ArraySort(SInt, es))
	nv, _ := x.W.WithField(rv, "base", nb)
	nv.GoT = rv.GoT
	c := x.W.Fresh("wrd", nv.Sort)
	c.GoT = nv.GoT
	x.W.Facts = append(x.W.Facts, Eq(c, nv).S)
	a := x.named("wroff", Arith("-", x.W.SeqOff(dst), x.W.SeqOff(rv)))
	x.W.nfresh++
	q := fmt.Sprintf("q!%d", x.W.nfresh)
	qj := T(q, SInt)
	out := Or(Cmp("<", qj, a), Cmp(">=", qj, Arith("+", a, x.W.SeqLen(dst))))
	x.W.AddFact(env.pc, T(fmt.Sprintf("(forall ((%s Int)) (! %s :pattern (%s)))", q,
		Implies(out, Eq(x.W.SeqAt(c, qj), x.W.SeqAt(rv, qj))).S, x.W.SeqAt(c, qj).S), SBool))
	if es == SInt {
		// bytes stay bytes
		x.W.AddFact(env.pc, T(fmt.Sprintf("(forall ((%s Int)) (! %s :pattern (%s)))", q,
			And(Cmp("<=", IntLit(0), x.W.SeqAt(c, qj)), Cmp("<=", x.W.SeqAt(c, qj), IntLit(255))).S, x.W.SeqAt(c, qj).S), SBool))
	}
	x.assign(root, c, env)
}

// indexFacts: consequences of the definitions of strings.Index / IndexByte / LastIndex / Contains / HasPrefix /
// HasSuffix (and the bytes versions) attached to their uninterpreted results.
func (x *Exec) indexFacts(key string, as []Term, out []Term, env *Env) {
	name := key[strings.Index(key, ".")+1:]
	if !(strings.HasPrefix(key, "strings.") || strings.HasPrefix(key, "bytes.")) || len(as) != 2 || len(out) != 1 {
		return
	}
	s, sep := as[0], as[1]
	if !x.W.IsSeq(s.Sort) {
		return
	}
	r := out[0]
	sl := x.W.SeqLen(s)
	var sepLen Term
	oneByte := false
	var sepByte Term
	if x.W.IsSeq(sep.Sort) {
		sepLen = x.W.SeqLen(sep)
		if n, ok := litLen(x.W, sep); ok && n == 1 {
			oneByte = true
			sepByte = x.W.SeqAt(sep, IntLit(0))
		}
	} else if sep.Sort == SInt && (name == "IndexByte" || name == "LastIndexByte") {
		sepLen = IntLit(1)
		oneByte = true
		sepByte = sep
	} else {
		return
	}
	x.W.nfresh++
	q := fmt.Sprintf("q!%d", x.W.nfresh)
	qi := T(q, SInt)
	forall := func(body Term, pat Term) Term {
		return T(fmt.Sprintf("(forall ((%s Int)) (! %s :pattern (%s)))", q, body.S, pat.S), SBool)
	}
	switch name {
	case "Index", "IndexByte", "LastIndex", "LastIndexByte":
		x.W.AddFact(env.pc, Or(Eq(r, IntLit(-1)), And(Cmp(">=", r, IntLit(0)), Cmp("<=", Arith("+", r, sepLen), sl))))
		if oneByte {
			x.W.AddFact(env.pc, Implies(Cmp(">=", r, IntLit(0)), Eq(x.W.SeqAt(s, r), sepByte)))
			inS := And(Cmp("<=", IntLit(0), qi), Cmp("<", qi, sl))
			if strings.HasPrefix(name, "Last") {
				x.W.AddFact(env.pc, forall(Implies(And(inS, Cmp(">", qi, r)), Not(Eq(x.W.SeqAt(s, qi), sepByte))), x.W.SeqAt(s, qi)))
			} else {
				x.W.AddFact(env.pc, forall(Implies(And(inS, Or(Eq(r, IntLit(-1)), Cmp("<", qi, r))), Not(Eq(x.W.SeqAt(s, qi), sepByte))), x.W.SeqAt(s, qi)))
			}
		}
	case "Contains":
		if oneByte && r.Sort == SBool {
			inS := And(Cmp("<=", IntLit(0), qi), Cmp("<", qi, sl))
			x.W.AddFact(env.pc, Implies(Not(r), forall(Implies(inS, Not(Eq(x.W.SeqAt(s, qi), sepByte))), x.W.SeqAt(s, qi))))
			x.W.AddFact(env.pc, Implies(r, Cmp(">=", sl, IntLit(1))))
		} else if r.Sort == SBool {
			x.W.AddFact(env.pc, Implies(r, Cmp(">=", sl, sepLen)))
		}
	case "HasPrefix", "HasSuffix":
		if r.Sort == SBool {
			x.W.AddFact(env.pc, Implies(r, Cmp(">=", sl, sepLen)))
			if n, ok := litLen(x.W, sep); ok && n <= 8 {
				var eqs []Term
				for j := 0; j < n; j++ {
					var idx Term
					if name == "HasPrefix" {
						idx = IntLit(int64(j))
					} else {
						idx = Arith("+", Arith("-", sl, IntLit(int64(n))), IntLit(int64(j)))
					}
					eqs = append(eqs, Eq(x.W.SeqAt(s, idx), x.W.SeqAt(sep, IntLit(int64(j)))))
				}
				x.W.AddFact(env.pc, Eq(r, And(append([]Term{Cmp(">=", sl, IntLit(int64(n)))}, eqs...)...)))
			}
		}
	}
}

// ---- bufio.Reader model helpers ----
func (x *Exec) bufioDecl(so Sort) {
	x.W.DeclareFun("rdData", []Sort{so}, x.W.SeqSort(SInt))
	x.W.DeclareFun("rdPos", []Sort{so}, SInt)
	x.W.DeclareFun("rdBuf", []Sort{so}, SInt)
	x.W.DeclareFun("rdBad", []Sort{so}, SBool)
	if !x.W.constSeen["bufio_axiom_"+string(so)] {
		x.W.constSeen["bufio_axiom_"+string(so)] = true
		// every reader value (also one that comes back from a callee or a loop cut) is a position in a finite stream
		x.W.Facts = append(x.W.Facts, fmt.Sprintf("(forall ((r %s)) (! (and (<= 0 (rdPos r)) (<= (rdPos r) (Seq_Int_len (rdData r))) (<= 0 (rdBuf r)) (<= (rdBuf r) (- (Seq_Int_len (rdData r)) (rdPos r)))) :pattern ((rdPos r))))", so))
		x.W.Facts = append(x.W.Facts, fmt.Sprintf("(forall ((r %s) (k Int)) (! (and (<= 0 (Seq_Int_at (rdData r) k)) (<= (Seq_Int_at (rdData r) k) 255)) :pattern ((Seq_Int_at (rdData r) k))))", so))
	}
}
func (x *Exec) rdBad(r Term) Term { return T("(rdBad "+r.S+")", SBool) }
func (x *Exec) rdData(r Term) Term { return T("(rdData "+r.S+")", x.W.SeqSort(SInt)) }
func (x *Exec) rdPos(r Term) Term  { return T("(rdPos "+r.S+")", SInt) }
func (x *Exec) rdBuf(r Term) Term  { return T("(rdBuf "+r.S+")", SInt) }
func (x *Exec) isNilPtr(r Term) Term {
	pn := "isnilptr_" + sanitize(string(r.Sort))
	x.W.DeclareFun(pn, []Sort{r.Sort}, SBool)
	return T("("+pn+" "+r.S+")", SBool)
}

// bufioInv: 0 <= rdPos <= len(rdData), 0 <= rdBuf <= remaining, bytes are bytes
func (x *Exec) bufioInv(r Term, env *Env) {
	d := x.rdData(r)
	x.W.AddFact(env.pc, And(Cmp("<=", IntLit(0), x.rdPos(r)), Cmp("<=", x.rdPos(r), x.W.SeqLen(d)), Cmp("<=", IntLit(0), x.rdBuf(r)),
		Cmp("<=", x.rdBuf(r), Arith("-", x.W.SeqLen(d), x.rdPos(r))), Cmp(">=", x.W.SeqLen(d), IntLit(0)), Not(x.isNilPtr(r))))
}

// eofFacts: the error of a read at the end of the stream is io.EOF, and io.EOF is only reported at the end
// (uses the same per-error-term sentinel constant as comparisons `err == io.EOF`).
func (x *Exec) eofFacts(errT Term, atEnd Term, env *Env) {
	c := x.W.DeclareConst("is_io_EOF!"+sanitize(errT.S), SBool)
	x.W.AddFact(env.pc, And(Implies(And(errT, c), atEnd), Implies(And(errT, atEnd), c)))
}

// assignRecv: a library method with a pointer receiver updated its receiver; execution continues only if the
// receiver was not nil, so the updated box is not nil either.
func (x *Exec) assignRecv(recvExpr ast.Expr, nv Term, env *Env) {
	x.assign(recvExpr, nv, env)
	if t := x.cx.info.TypeOf(recvExpr); t != nil && !x.termMode {
		if _, isPtr := t.Underlying().(*types.Pointer); isPtr {
			pn := "isnilptr_" + sanitize(string(nv.Sort))
			x.W.DeclareFun(pn, []Sort{nv.Sort}, SBool)
			x.W.AddFact(env.pc, Not(T("("+pn+" "+nv.S+")", SBool)))
		}
	}
}
