package vc

import (
	"fmt"
	"os"
	"regexp"
	"strconv"
	"strings"
)

// ---------------------------------------------------------------------
// Contract data model

type Param struct {
	Name string
	Type string // contract-level type text: int, byte, bool, real, []byte, string, or Go type name
}

type Clause struct {
	Ordinal int // atreturn#k: only the k-th return statement (source order, 1-based); 0 = every successful return
	Label string
	Text  string
	Expr  Expr
	Line  int
}

type LoopContract struct {
	Ordinal    int
	Hints      []Clause
	Steps      []Clause // relation between the state at the start (prev(e)) and at the end of one iteration
	Splits     []Clause // case analysis: every obligation of the loop body is discharged once per case
	Invariants []Clause
	Decreases  *Clause
	Exhaustive bool // the loop visits every element: its body contains no return, no break out of it and no goto
}

type Bind struct {
	Callee string
	Ghost  string
	Expr   Expr
	Text   string
}

type FuncContract struct {
	File     string
	Line     int
	Pkg      string // package name (last path element)
	Recv     string // "" or "T" / "*T"
	Name     string
	Props    []string
	Results  []string
	Ghosts   []Param
	Requires []Clause
	Ensures  []Clause
	AtReturn []Clause // over locals at successful returns
	Counters []Counter
	Loops    map[int]*LoopContract
	Flags    map[string]bool
	Binds    []Bind
	Callsite []CallsiteClause
	Lets     []Clause // function-level definitions evaluated at entry: Label = name
	Fresh    []string // field names: every value stored into such a field in this function must be a fresh slice
	MustRead []string // receiver fields the function (transitively) must read
	NoRead   []string // receiver fields the function (transitively) must not read
	Cache    []string // receiver fields that are memoisation caches (writes ignored by the readonly analysis)
	Measure  []Expr   // function-level decreases (lexicographic) for recursion
	MeasureText string
}

// Counter is a ghost event counter (see the `count` clause).
type Counter struct {
	Name   string
	Callee string
	Params []string
	When   Clause
}

type CallsiteClause struct {
	Callee  string // e.g. strings.Repeat
	Ordinal int    // callee#k: only the k-th call (1-based, source order) of the callee in the function; 0 = every call
	Params []string
	Clause Clause
}

func (f *FuncContract) Key() string {
	if f.Recv != "" {
		return f.Pkg + ".(" + f.Recv + ")." + f.Name
	}
	return f.Pkg + "." + f.Name
}

type SpecFunc struct {
	Abstract bool // uninterpreted: no body
	Pkg    string
	Name   string
	Params []Param
	Ret    string
	Body   Expr
	Text   string
	Rec    bool
	Prefix bool // fold over the first n elements of its sequence argument (shape checked): stable under append
	Opaque bool
	Line   int
	File   string
}

type Lemma struct {
	Pkg      string
	Name     string
	File     string
	Line     int
	Props    []string
	Params   []Param
	Requires []Clause
	Ensures  []Clause
	Flags    map[string]bool
}

// GlobalClause: a package-level variable that a named configuration API may mutate (everything else may not).
type GlobalClause struct {
	Pkg, Var, Mutator, Because string
}

type Contracts struct {
	Globals []GlobalClause
	Funcs  map[string]*FuncContract // by Key()
	Specs  map[string]*SpecFunc     // by name (global) and pkg.name
	Lemmas []*Lemma
	Order  []string
}

func NewContracts() *Contracts {
	return &Contracts{Funcs: map[string]*FuncContract{}, Specs: map[string]*SpecFunc{}}
}

var (
	reFuncHdr  = regexp.MustCompile(`^func\s+(?:\(\s*(\*?\w+)\s*\)\s*)?(\w+)(?:\s+results\s*\(([^)]*)\))?\s*$`)
	reCount    = regexp.MustCompile(`^count\s+(\w+)\s*:\s*([\w\.\(\)\*]+)\s*\(([^)]*)\)\s+when\s+(.*)$`)
	reSpecAbs  = regexp.MustCompile(`^spec\s+abstract\s+func\s+(\w+)\s*\(([^)]*)\)\s*([\w\[\]\.]+)\s*$`)
	reSpecHdr  = regexp.MustCompile(`^spec\s+(rec\s+prefix\s+|rec\s+|opaque\s+)?func\s+(\w+)\s*\(([^)]*)\)\s*([\w\[\]\.]+)\s*=\s*(.*)$`)
	reLemmaHdr = regexp.MustCompile(`^lemma\s+(\w+)\s*\(([^)]*)\)\s*$`)
	reLabel    = regexp.MustCompile(`^([a-zA-Z_][a-zA-Z0-9_]*):\s+(.*)$`)
	reLoopHdr  = regexp.MustCompile(`^loop\s+(\d+)\s*:?\s*$`)
	reBind     = regexp.MustCompile(`^bind\s+([\w\.\(\)\*]+)\.(\w+)\s*=\s*(.*)$`)
	reCallsite = regexp.MustCompile(`^callsite\s+([\w\.\(\)\*]+)(#\d+)?\s*\(([^)]*)\)\s+requires\s+(.*)$`)
)

var clauseKeywords = map[string]bool{"func": true, "spec": true, "lemma": true, "property": true, "ghost": true, "requires": true,
	"ensures": true, "loop": true, "invariant": true, "decreases": true, "flags": true, "bind": true, "callsite": true, "let": true, "hint": true, "noread": true, "cache": true, "mustread": true, "global": true, "fresh": true, "split": true, "step": true, "atreturn": true, "count": true, "exhaustive": true}

func parseParams(s string) ([]Param, error) {
	s = strings.TrimSpace(s)
	if s == "" {
		return nil, nil
	}
	var ps []Param
	var pendingNames []string
	for _, part := range strings.Split(s, ",") {
		fs := strings.Fields(part)
		switch len(fs) {
		case 1:
			pendingNames = append(pendingNames, fs[0])
		case 2:
			for _, n := range pendingNames {
				ps = append(ps, Param{Name: n, Type: fs[1]})
			}
			pendingNames = nil
			ps = append(ps, Param{Name: fs[0], Type: fs[1]})
		default:
			return nil, fmt.Errorf("bad parameter %q", part)
		}
	}
	if len(pendingNames) > 0 {
		return nil, fmt.Errorf("parameter without type: %v", pendingNames)
	}
	return ps, nil
}

// ParseFile reads //@ lines of one file.
func (cs *Contracts) ParseFile(path, pkgName string) error {
	data, err := os.ReadFile(path)
	if err != nil {
		return err
	}
	type rawLine struct {
		text string
		line int
	}
	var lines []rawLine
	for i, l := range strings.Split(string(data), "\n") {
		t := strings.TrimSpace(l)
		if !strings.HasPrefix(t, "//@") {
			continue
		}
		body := strings.TrimSpace(t[3:])
		if body == "" {
			continue
		}
		// strip trailing comment " // ..."
		if k := strings.Index(body, " // "); k >= 0 {
			body = strings.TrimSpace(body[:k])
		}
		if strings.HasPrefix(body, "//") {
			continue
		}
		lines = append(lines, rawLine{body, i + 1})
	}
	// join continuation lines
	var stmts []rawLine
	for _, l := range lines {
		first := l.text
		if k := strings.IndexAny(first, " \t(:#"); k >= 0 {
			first = first[:k]
		}
		if clauseKeywords[first] || len(stmts) == 0 {
			stmts = append(stmts, l)
		} else {
			stmts[len(stmts)-1].text += " " + l.text
		}
	}
	var curF *FuncContract
	var curL *Lemma
	var curLoop *LoopContract
	fail := func(l rawLine, f string, a ...interface{}) error {
		return fmt.Errorf("%s:%d: %s", path, l.line, fmt.Sprintf(f, a...))
	}
	mkClause := func(l rawLine, text string) (Clause, error) {
		c := Clause{Line: l.line}
		if m := reLabel.FindStringSubmatch(text); m != nil {
			c.Label = m[1]
			text = m[2]
		}
		c.Text = text
		e, err := ParseExpr(text)
		if err != nil {
			return c, fail(l, "%v in %q", err, text)
		}
		c.Expr = e
		return c, nil
	}
	for _, l := range stmts {
		t := l.text
		kw := t
		rest := ""
		if k := strings.IndexAny(t, " \t"); k >= 0 {
			kw = t[:k]
			rest = strings.TrimSpace(t[k:])
		}
		retOrd := 0
		if strings.HasPrefix(kw, "atreturn#") {
			retOrd, _ = strconv.Atoi(kw[len("atreturn#"):])
			kw = "atreturn"
		}
		switch kw {
		case "func":
			m := reFuncHdr.FindStringSubmatch(t)
			if m == nil {
				return fail(l, "bad func header %q", t)
			}
			curF = &FuncContract{File: path, Line: l.line, Pkg: pkgName, Recv: m[1], Name: m[2], Loops: map[int]*LoopContract{}, Flags: map[string]bool{}}
			if strings.TrimSpace(m[3]) != "" {
				for _, r := range strings.Split(m[3], ",") {
					curF.Results = append(curF.Results, strings.TrimSpace(r))
				}
			}
			curL, curLoop = nil, nil
			if _, dup := cs.Funcs[curF.Key()]; dup {
				return fail(l, "duplicate contract for %s", curF.Key())
			}
			cs.Funcs[curF.Key()] = curF
			cs.Order = append(cs.Order, curF.Key())
		case "spec":
			if ma := reSpecAbs.FindStringSubmatch(t); ma != nil {
				// uninterpreted specification function (no definition): spec abstract func f(params) T
				ps, err := parseParams(ma[2])
				if err != nil {
					return fail(l, "%v", err)
				}
				sf := &SpecFunc{Pkg: pkgName, Name: ma[1], Params: ps, Ret: ma[3], Abstract: true, Line: l.line, File: path}
				if _, dup := cs.Specs[sf.Name]; dup {
					return fail(l, "duplicate spec func %s", sf.Name)
				}
				cs.Specs[sf.Name] = sf
				curF, curL, curLoop = nil, nil, nil
				continue
			}
			m := reSpecHdr.FindStringSubmatch(t)
			if m == nil {
				return fail(l, "bad spec header %q", t)
			}
			ps, err := parseParams(m[3])
			if err != nil {
				return fail(l, "%v", err)
			}
			body, err := ParseExpr(m[5])
			if err != nil {
				return fail(l, "%v in spec %s", err, m[2])
			}
			sf := &SpecFunc{Pkg: pkgName, Name: m[2], Params: ps, Ret: m[4], Body: body, Text: m[5], Rec: strings.HasPrefix(strings.TrimSpace(m[1]), "rec"), Prefix: strings.Contains(m[1], "prefix"), Opaque: strings.TrimSpace(m[1]) == "opaque", Line: l.line, File: path}
			if _, dup := cs.Specs[sf.Name]; dup {
				return fail(l, "duplicate spec func %s", sf.Name)
			}
			cs.Specs[sf.Name] = sf
			curF, curL, curLoop = nil, nil, nil
		case "lemma":
			m := reLemmaHdr.FindStringSubmatch(t)
			if m == nil {
				return fail(l, "bad lemma header %q", t)
			}
			ps, err := parseParams(m[2])
			if err != nil {
				return fail(l, "%v", err)
			}
			curL = &Lemma{Pkg: pkgName, Name: m[1], File: path, Line: l.line, Params: ps, Flags: map[string]bool{}}
			cs.Lemmas = append(cs.Lemmas, curL)
			curF, curLoop = nil, nil
		case "property":
			var props []string
			for _, p := range strings.FieldsFunc(rest, func(r rune) bool { return r == ',' || r == ' ' }) {
				props = append(props, p)
			}
			if curF != nil {
				curF.Props = append(curF.Props, props...)
			} else if curL != nil {
				curL.Props = append(curL.Props, props...)
			} else {
				return fail(l, "property outside func/lemma")
			}
		case "flags":
			for _, p := range strings.FieldsFunc(rest, func(r rune) bool { return r == ',' || r == ' ' }) {
				if curF != nil {
					curF.Flags[p] = true
				} else if curL != nil {
					curL.Flags[p] = true
				}
			}
		case "ghost":
			if curF == nil {
				return fail(l, "ghost outside func")
			}
			ps, err := parseParams(rest)
			if err != nil {
				return fail(l, "%v", err)
			}
			curF.Ghosts = append(curF.Ghosts, ps...)
		case "requires", "ensures":
			c, err := mkClause(l, rest)
			if err != nil {
				return err
			}
			switch {
			case curF != nil && kw == "requires":
				curF.Requires = append(curF.Requires, c)
			case curF != nil:
				curF.Ensures = append(curF.Ensures, c)
			case curL != nil && kw == "requires":
				curL.Requires = append(curL.Requires, c)
			case curL != nil:
				curL.Ensures = append(curL.Ensures, c)
			default:
				return fail(l, "%s outside func/lemma", kw)
			}
			curLoop = nil
		case "count":
			// event counter: count NAME: callee(params) when EXPR  -- NAME counts the calls of callee (in this
			// function) whose arguments satisfy EXPR; usable in invariants, steps and post-conditions
			m := reCount.FindStringSubmatch(t)
			if m == nil || curF == nil {
				return fail(l, "bad count clause %q", t)
			}
			c, err := mkClause(l, m[4])
			if err != nil {
				return err
			}
			var ps []string
			for _, p := range strings.Split(m[3], ",") {
				if p = strings.TrimSpace(p); p != "" {
					ps = append(ps, p)
				}
			}
			curF.Counters = append(curF.Counters, Counter{Name: m[1], Callee: m[2], Params: ps, When: c})
			curLoop = nil
		case "atreturn":
			// holds over the locals in scope at every successful return (last result literally nil)
			c, err := mkClause(l, rest)
			if err != nil {
				return err
			}
			if curF == nil {
				return fail(l, "atreturn outside func")
			}
			c.Ordinal = retOrd
			curF.AtReturn = append(curF.AtReturn, c)
			curLoop = nil
		case "loop":
			m := reLoopHdr.FindStringSubmatch(t)
			if m == nil || curF == nil {
				return fail(l, "bad loop header %q", t)
			}
			n, _ := strconv.Atoi(m[1])
			curLoop = &LoopContract{Ordinal: n}
			curF.Loops[n] = curLoop
		case "invariant":
			if curLoop == nil {
				return fail(l, "invariant outside loop")
			}
			c, err := mkClause(l, rest)
			if err != nil {
				return err
			}
			curLoop.Invariants = append(curLoop.Invariants, c)
		case "step":
			if curLoop == nil {
				return fail(l, "step outside loop")
			}
			c, err := mkClause(l, rest)
			if err != nil {
				return err
			}
			curLoop.Steps = append(curLoop.Steps, c)
		case "exhaustive":
			if curLoop == nil {
				return fail(l, "exhaustive outside loop")
			}
			curLoop.Exhaustive = true
		case "split":
			if curLoop == nil {
				return fail(l, "split outside loop")
			}
			c, err := mkClause(l, rest)
			if err != nil {
				return err
			}
			curLoop.Splits = append(curLoop.Splits, c)
		case "hint":
			if curLoop == nil {
				return fail(l, "hint outside loop")
			}
			c, err := mkClause(l, rest)
			if err != nil {
				return err
			}
			curLoop.Hints = append(curLoop.Hints, c)
		case "decreases":
			if curLoop == nil && curF != nil {
				for _, part := range splitTop(rest) {
					e, err := ParseExpr(part)
					if err != nil {
						return fail(l, "%v", err)
					}
					curF.Measure = append(curF.Measure, e)
				}
				curF.MeasureText = rest
				continue
			}
			if curLoop == nil {
				return fail(l, "decreases outside loop")
			}
			c, err := mkClause(l, rest)
			if err != nil {
				return err
			}
			curLoop.Decreases = &c
		case "global":
			fs := strings.Fields(rest)
			if len(fs) < 3 || fs[1] != "mutator" {
				return fail(l, "bad global clause %q (want: global <var> mutator <func> because <text>)", t)
			}
			because := ""
			if k := strings.Index(rest, " because "); k >= 0 {
				because = strings.TrimSpace(rest[k+9:])
			}
			cs.Globals = append(cs.Globals, GlobalClause{Pkg: pkgName, Var: fs[0], Mutator: fs[2], Because: because})
			curF, curL, curLoop = nil, nil, nil
		case "fresh":
			if curF == nil {
				return fail(l, "fresh outside func")
			}
			curF.Fresh = append(curF.Fresh, strings.FieldsFunc(rest, func(r rune) bool { return r == ',' || r == ' ' })...)
		case "mustread":
			if curF == nil {
				return fail(l, "mustread outside func")
			}
			curF.MustRead = append(curF.MustRead, strings.FieldsFunc(rest, func(r rune) bool { return r == ',' || r == ' ' })...)
		case "noread", "cache":
			if curF == nil {
				return fail(l, "%s outside func", kw)
			}
			for _, f := range strings.FieldsFunc(rest, func(r rune) bool { return r == ',' || r == ' ' }) {
				if kw == "noread" {
					curF.NoRead = append(curF.NoRead, f)
				} else {
					curF.Cache = append(curF.Cache, f)
				}
			}
		case "let":
			k := strings.Index(rest, "=")
			if curF == nil || k < 0 {
				return fail(l, "bad let %q", t)
			}
			e, err := ParseExpr(strings.TrimSpace(rest[k+1:]))
			if err != nil {
				return fail(l, "%v", err)
			}
			curF.Lets = append(curF.Lets, Clause{Label: strings.TrimSpace(rest[:k]), Expr: e, Text: rest, Line: l.line})
		case "bind":
			m := reBind.FindStringSubmatch(t)
			if m == nil || curF == nil {
				return fail(l, "bad bind %q", t)
			}
			e, err := ParseExpr(m[3])
			if err != nil {
				return fail(l, "%v", err)
			}
			curF.Binds = append(curF.Binds, Bind{Callee: m[1], Ghost: m[2], Expr: e, Text: m[3]})
		case "callsite":
			m := reCallsite.FindStringSubmatch(t)
			if m == nil || curF == nil {
				return fail(l, "bad callsite %q", t)
			}
			c, err := mkClause(l, m[4])
			if err != nil {
				return err
			}
			var ps []string
			for _, p := range strings.Split(m[3], ",") {
				if p = strings.TrimSpace(p); p != "" {
					ps = append(ps, p)
				}
			}
			ord := 0
			if m[2] != "" {
				ord, _ = strconv.Atoi(m[2][1:])
			}
			curF.Callsite = append(curF.Callsite, CallsiteClause{Callee: m[1], Ordinal: ord, Params: ps, Clause: c})
		default:
			return fail(l, "unknown clause %q", kw)
		}
	}
	return nil
}

// ---------------------------------------------------------------------
// Expression AST

type Expr interface{}

type (
	ELit   struct{ Kind, Val string } // int, real, char, string, bool
	EIdent struct{ Name string }
	EBin   struct {
		Op   string
		L, R Expr
	}
	EUn struct {
		Op string
		X  Expr
	}
	EIndex struct{ X, I Expr }
	ESlice struct{ X, Lo, Hi Expr }
	ESel   struct {
		X    Expr
		Name string
	}
	ECall struct {
		Fun  Expr
		Args []Expr
	}
	EQuant struct {
		Forall   bool
		Vars     []Param
		Body     Expr
		Triggers [][]Expr
	}
	ECond struct{ C, A, B Expr }
	ELet  struct {
		Name      string
		Val, Body Expr
	}
	EOld   struct{ X Expr }
	EEntry struct{ X Expr } // value at entry of the current loop
	EPrev  struct{ X Expr } // value at the start of the current iteration (step clauses)
)

type tok struct {
	kind string // id, int, real, char, str, op, eof
	val  string
}

type lexer struct {
	toks []tok
	pos  int
}

func lex(s string) ([]tok, error) {
	var toks []tok
	i := 0
	for i < len(s) {
		c := s[i]
		switch {
		case c == ' ' || c == '\t':
			i++
		case c >= '0' && c <= '9':
			j := i
			isReal := false
			if c == '0' && j+1 < len(s) && (s[j+1] == 'x' || s[j+1] == 'X') {
				j += 2
				for j < len(s) && (isHex(s[j])) {
					j++
				}
				v, err := strconv.ParseInt(s[i+2:j], 16, 64)
				if err != nil {
					return nil, err
				}
				toks = append(toks, tok{"int", strconv.FormatInt(v, 10)})
				i = j
				continue
			}
			for j < len(s) && (s[j] >= '0' && s[j] <= '9' || s[j] == '.') {
				if s[j] == '.' {
					isReal = true
				}
				j++
			}
			if isReal {
				toks = append(toks, tok{"real", s[i:j]})
			} else {
				toks = append(toks, tok{"int", s[i:j]})
			}
			i = j
		case c == '_' || c >= 'a' && c <= 'z' || c >= 'A' && c <= 'Z' || c == '$':
			j := i
			for j < len(s) && (s[j] == '_' || s[j] == '$' || s[j] >= 'a' && s[j] <= 'z' || s[j] >= 'A' && s[j] <= 'Z' || s[j] >= '0' && s[j] <= '9') {
				j++
			}
			toks = append(toks, tok{"id", s[i:j]})
			i = j
		case c == '\'':
			j := i + 1
			for j < len(s) && s[j] != '\'' {
				if s[j] == '\\' {
					j++
				}
				j++
			}
			if j >= len(s) {
				return nil, fmt.Errorf("unterminated char literal")
			}
			r, _, _, err := strconv.UnquoteChar(s[i+1:j], '\'')
			if err != nil {
				return nil, fmt.Errorf("bad char literal %s", s[i:j+1])
			}
			toks = append(toks, tok{"int", strconv.Itoa(int(r))})
			i = j + 1
		case c == '"':
			j := i + 1
			for j < len(s) && s[j] != '"' {
				if s[j] == '\\' {
					j++
				}
				j++
			}
			if j >= len(s) {
				return nil, fmt.Errorf("unterminated string literal")
			}
			v, err := strconv.Unquote(s[i : j+1])
			if err != nil {
				return nil, err
			}
			toks = append(toks, tok{"str", v})
			i = j + 1
		default:
			ops := []string{"<==>", "==>", "::", "==", "!=", "<=", ">=", "&&", "||", "<", ">", "+", "-", "*", "/", "%", "!", "(", ")", "[", "]", ".", ",", ":", "?", "=", "{", "}"}
			matched := false
			for _, op := range ops {
				if strings.HasPrefix(s[i:], op) {
					toks = append(toks, tok{"op", op})
					i += len(op)
					matched = true
					break
				}
			}
			if !matched {
				return nil, fmt.Errorf("unexpected character %q", c)
			}
		}
	}
	toks = append(toks, tok{"eof", ""})
	return toks, nil
}

func isHex(c byte) bool {
	return c >= '0' && c <= '9' || c >= 'a' && c <= 'f' || c >= 'A' && c <= 'F'
}

func ParseExpr(s string) (e Expr, err error) {
	toks, err := lex(s)
	if err != nil {
		return nil, err
	}
	p := &lexer{toks: toks}
	defer func() {
		if r := recover(); r != nil {
			if pe, ok := r.(parseErr); ok {
				err = fmt.Errorf("%s", string(pe))
				return
			}
			panic(r)
		}
	}()
	e = p.expr()
	if p.peek().kind != "eof" {
		return nil, fmt.Errorf("trailing input at %q", p.peek().val)
	}
	return e, nil
}

type parseErr string

func (p *lexer) peek() tok { return p.toks[p.pos] }
func (p *lexer) next() tok { t := p.toks[p.pos]; p.pos++; return t }
func (p *lexer) isOp(v string) bool {
	t := p.peek()
	return t.kind == "op" && t.val == v
}
func (p *lexer) isID(v string) bool {
	t := p.peek()
	return t.kind == "id" && t.val == v
}
func (p *lexer) expectOp(v string) {
	if !p.isOp(v) {
		panic(parseErr(fmt.Sprintf("expected %q, found %q", v, p.peek().val)))
	}
	p.pos++
}

func (p *lexer) expr() Expr {
	if p.isID("forall") || p.isID("exists") {
		fa := p.next().val == "forall"
		var vars []Param
		for {
			n := p.next()
			if n.kind != "id" {
				panic(parseErr("expected bound variable name"))
			}
			ty := p.typeText()
			vars = append(vars, Param{Name: n.val, Type: ty})
			if p.isOp(",") {
				p.pos++
				continue
			}
			break
		}
		p.expectOp("::")
		var trigs [][]Expr
		for p.isOp("{") {
			p.pos++
			var tg []Expr
			for !p.isOp("}") {
				tg = append(tg, p.expr())
				if p.isOp(",") {
					p.pos++
				}
			}
			p.expectOp("}")
			trigs = append(trigs, tg)
		}
		body := p.expr()
		return EQuant{Forall: fa, Vars: vars, Body: body, Triggers: trigs}
	}
	if p.isID("let") {
		p.pos++
		n := p.next()
		p.expectOp("=")
		v := p.expr()
		if !p.isID("in") {
			panic(parseErr("expected 'in'"))
		}
		p.pos++
		b := p.expr()
		return ELet{Name: n.val, Val: v, Body: b}
	}
	c := p.iff()
	if p.isOp("?") {
		p.pos++
		a := p.expr()
		p.expectOp(":")
		b := p.expr()
		return ECond{C: c, A: a, B: b}
	}
	return c
}

func (p *lexer) typeText() string {
	var b strings.Builder
	for p.isOp("[") {
		p.pos++
		b.WriteString("[")
		if p.peek().kind == "int" {
			b.WriteString(p.next().val)
		}
		p.expectOp("]")
		b.WriteString("]")
	}
	if p.isOp("*") {
		p.pos++
		b.WriteString("*")
	}
	t := p.next()
	if t.kind != "id" {
		panic(parseErr("expected type name"))
	}
	b.WriteString(t.val)
	for p.isOp(".") {
		p.pos++
		b.WriteString("." + p.next().val)
	}
	return b.String()
}

func (p *lexer) iff() Expr {
	l := p.impl()
	for p.isOp("<==>") {
		p.pos++
		var r Expr
		if p.isID("forall") || p.isID("exists") {
			r = p.expr()
		} else {
			r = p.impl()
		}
		l = EBin{Op: "<==>", L: l, R: r}
	}
	return l
}

func (p *lexer) impl() Expr {
	l := p.or()
	if p.isOp("==>") {
		p.pos++
		var r Expr
		if p.isID("forall") || p.isID("exists") {
			r = p.expr()
		} else {
			r = p.impl()
		}
		return EBin{Op: "==>", L: l, R: r}
	}
	return l
}

func (p *lexer) or() Expr {
	l := p.and()
	for p.isOp("||") {
		p.pos++
		var r Expr
		if p.isID("forall") || p.isID("exists") {
			r = p.expr()
		} else {
			r = p.and()
		}
		l = EBin{Op: "||", L: l, R: r}
	}
	return l
}

func (p *lexer) and() Expr {
	l := p.cmp()
	for p.isOp("&&") {
		p.pos++
		var r Expr
		if p.isID("forall") || p.isID("exists") {
			r = p.expr()
		} else {
			r = p.cmp()
		}
		l = EBin{Op: "&&", L: l, R: r}
	}
	return l
}

func isCmpOp(s string) bool {
	switch s {
	case "==", "!=", "<", "<=", ">", ">=":
		return true
	}
	return false
}

func (p *lexer) cmp() Expr {
	l := p.add()
	var res Expr
	for p.peek().kind == "op" && isCmpOp(p.peek().val) {
		op := p.next().val
		r := p.add()
		c := EBin{Op: op, L: l, R: r}
		if res == nil {
			res = c
		} else {
			res = EBin{Op: "&&", L: res, R: c}
		}
		l = r
	}
	if res == nil {
		return l
	}
	return res
}

func (p *lexer) add() Expr {
	l := p.mul()
	for p.isOp("+") || p.isOp("-") {
		op := p.next().val
		r := p.mul()
		l = EBin{Op: op, L: l, R: r}
	}
	return l
}

func (p *lexer) mul() Expr {
	l := p.unary()
	for p.isOp("*") || p.isOp("/") || p.isOp("%") {
		op := p.next().val
		r := p.unary()
		l = EBin{Op: op, L: l, R: r}
	}
	return l
}

func (p *lexer) unary() Expr {
	if p.isOp("!") || p.isOp("-") || p.isOp("*") {
		op := p.next().val
		x := p.unary()
		if op == "*" {
			return x // deref of an owned box is the value
		}
		return EUn{Op: op, X: x}
	}
	return p.postfix()
}

func (p *lexer) postfix() Expr {
	x := p.primary()
	for {
		switch {
		case p.isOp("["):
			p.pos++
			var lo, hi Expr
			if p.isOp(":") {
				p.pos++
				if !p.isOp("]") {
					hi = p.expr()
				}
				p.expectOp("]")
				x = ESlice{X: x, Lo: nil, Hi: hi}
				continue
			}
			lo = p.expr()
			if p.isOp(":") {
				p.pos++
				if !p.isOp("]") {
					hi = p.expr()
				}
				p.expectOp("]")
				x = ESlice{X: x, Lo: lo, Hi: hi}
				continue
			}
			p.expectOp("]")
			x = EIndex{X: x, I: lo}
		case p.isOp("."):
			p.pos++
			n := p.next()
			if n.kind != "id" {
				panic(parseErr("expected field name"))
			}
			x = ESel{X: x, Name: n.val}
		case p.isOp("("):
			p.pos++
			var args []Expr
			for !p.isOp(")") {
				args = append(args, p.expr())
				if p.isOp(",") {
					p.pos++
				}
			}
			p.expectOp(")")
			if id, ok := x.(EIdent); ok && id.Name == "old" && len(args) == 1 {
				x = EOld{X: args[0]}
			} else if id, ok := x.(EIdent); ok && id.Name == "entry" && len(args) == 1 {
				x = EEntry{X: args[0]}
			} else if id, ok := x.(EIdent); ok && id.Name == "prev" && len(args) == 1 {
				x = EPrev{X: args[0]}
			} else {
				x = ECall{Fun: x, Args: args}
			}
		default:
			return x
		}
	}
}

func (p *lexer) primary() Expr {
	t := p.next()
	switch t.kind {
	case "int":
		return ELit{Kind: "int", Val: t.val}
	case "real":
		return ELit{Kind: "real", Val: t.val}
	case "str":
		return ELit{Kind: "string", Val: t.val}
	case "id":
		if t.val == "true" || t.val == "false" {
			return ELit{Kind: "bool", Val: t.val}
		}
		return EIdent{Name: t.val}
	case "op":
		if t.val == "(" {
			e := p.expr()
			p.expectOp(")")
			return e
		}
	}
	panic(parseErr(fmt.Sprintf("unexpected token %q", t.val)))
}

// splitTop splits at top-level commas.
func splitTop(s string) []string {
	var out []string
	depth := 0
	start := 0
	for i, c := range s {
		switch c {
		case '(', '[', '{':
			depth++
		case ')', ']', '}':
			depth--
		case ',':
			if depth == 0 {
				out = append(out, strings.TrimSpace(s[start:i]))
				start = i + 1
			}
		}
	}
	out = append(out, strings.TrimSpace(s[start:]))
	return out
}

// ---------------------------------------------------------------------
// Robust view of a contract with ghosts (flags robust)
//
// A contract with ghost parameters speaks about inputs of a known provenance ("data is the encoding of img").  Its
// robust view drops the ghosts and every clause that mentions one (directly or through a `let`): what remains is what
// the function guarantees for ARBITRARY inputs - safety, termination and the ghost-free post-conditions.  The robust
// view is verified as a unit of its own; callers that do not bind the ghosts are checked against it.

func exprMentions(e Expr, names map[string]bool) bool {
	found := false
	var walk func(e Expr)
	walkAll := func(es []Expr) {
		for _, a := range es {
			walk(a)
		}
	}
	walk = func(e Expr) {
		if found || e == nil {
			return
		}
		switch v := e.(type) {
		case EIdent:
			if names[v.Name] {
				found = true
			}
		case EBin:
			walk(v.L)
			walk(v.R)
		case EUn:
			walk(v.X)
		case EIndex:
			walk(v.X)
			walk(v.I)
		case ESlice:
			walk(v.X)
			walk(v.Lo)
			walk(v.Hi)
		case ESel:
			walk(v.X)
		case ECall:
			walk(v.Fun)
			walkAll(v.Args)
		case EQuant:
			walk(v.Body)
			for _, t := range v.Triggers {
				walkAll(t)
			}
		case ECond:
			walk(v.C)
			walk(v.A)
			walk(v.B)
		case ELet:
			walk(v.Val)
			walk(v.Body)
		case EOld:
			walk(v.X)
		case EEntry:
			walk(v.X)
		case EPrev:
			walk(v.X)
		}
	}
	walk(e)
	return found
}

func (f *FuncContract) RobustView() *FuncContract {
	taint := map[string]bool{}
	for _, g := range f.Ghosts {
		taint[g.Name] = true
	}
	r := *f
	r.Ghosts = nil
	r.Binds = nil
	r.Flags = map[string]bool{}
	for k, v := range f.Flags {
		if k != "robust" {
			r.Flags[k] = v
		}
	}
	r.Flags["robustview"] = true
	keep := func(cs []Clause) []Clause {
		var out []Clause
		for _, c := range cs {
			if !exprMentions(c.Expr, taint) {
				out = append(out, c)
			}
		}
		return out
	}
	r.Lets = nil
	for _, c := range f.Lets {
		if exprMentions(c.Expr, taint) {
			taint[c.Label] = true
		} else {
			r.Lets = append(r.Lets, c)
		}
	}
	r.Requires = keep(f.Requires)
	r.Ensures = keep(f.Ensures)
	r.AtReturn = keep(f.AtReturn)
	r.Callsite = nil
	for _, cs := range f.Callsite {
		if !exprMentions(cs.Clause.Expr, taint) {
			r.Callsite = append(r.Callsite, cs)
		}
	}
	r.Measure = nil
	for _, m := range f.Measure {
		if !exprMentions(m, taint) {
			r.Measure = append(r.Measure, m)
		}
	}
	r.Loops = map[int]*LoopContract{}
	for k, lc := range f.Loops {
		n := &LoopContract{Ordinal: lc.Ordinal}
		n.Hints = keep(lc.Hints)
		n.Steps = keep(lc.Steps)
		n.Splits = keep(lc.Splits)
		n.Invariants = keep(lc.Invariants)
		if lc.Decreases != nil && !exprMentions(lc.Decreases.Expr, taint) {
			n.Decreases = lc.Decreases
		}
		r.Loops[k] = n
	}
	return &r
}
