package vc

import (
	"runtime"
	"fmt"
	"go/ast"
	"go/token"
	"go/types"
	"os"
	"sort"
	"strings"
)

func osEnviron() []string { return os.Environ() }

// Unsupported is raised (as panic) when a construct is outside the subset.
type Unsupported struct{ Msg string }

func unsupported(f string, a ...interface{}) {
	if os.Getenv("GOCV_TRACE") != "" && strings.Contains(fmt.Sprintf(f, a...), os.Getenv("GOCV_TRACE")) {
		buf := make([]byte, 1<<14)
		n := runtime.Stack(buf, false)
		fmt.Fprintf(os.Stderr, "GOCV_TRACE %s\n%s\n", fmt.Sprintf(f, a...), buf[:n])
	}
	panic(Unsupported{fmt.Sprintf(f, a...)})
}

// Env is a symbolic state.
type Env struct {
	vars map[types.Object]Term
	pc   Term
}

func (e *Env) clone() *Env {
	n := &Env{vars: make(map[types.Object]Term, len(e.vars)), pc: e.pc}
	for k, v := range e.vars {
		n.vars[k] = v
	}
	return n
}

type frame struct {
	kind      string // loop, switch
	label     string
	breaks    []*Env
	continues []*Env
}

type retRec struct {
	env  *Env
	vals []Term
}

// fctx is the per-function context (changes on inlining).
type fctx struct {
	fi       *FuncInfo
	fc       *FuncContract
	info     *types.Info
	loopOrd  map[ast.Node]int
	exhaustiveDone map[int]bool
	results  []*types.Var
	rets     []retRec
	frames   []*frame
	ghosts   map[string]Term
	oldEnv   *Env
	closures map[types.Object]*ast.FuncLit
	atretApplied map[int]bool // atreturn clauses that applied to at least one return statement (vacuity guard)
	aliases  map[types.Object]ast.Expr // x := &E : x stands for the location E (E's index variables must stay unchanged)
	splits   []Term // active case-analysis conditions (obligations are discharged once per case)
	measure0 []Term // entry value of the function-level decreases measure
	hidden   []types.Object // hidden index variables of enclosing range loops (innermost last)
	defers   []deferRec     // deferred delete(m, k) on local maps, applied at the merged exit
	escaped  map[string]ast.Expr // pointers handed to abstract callees behind an interface (may be written later)
	copiedPtr map[types.Object]bool // locals/fields that receive a COPY of an existing pointer in this function
	counters  []*types.Var          // ghost event counters (one synthetic variable per `count` clause, same order)
}

type deferRec struct {
	call *ast.CallExpr // deferred in-module call (nil for delete)
	expr ast.Expr
	key Term
	pc  Term
}

type Exec struct {
	inlining map[*ast.FuncLit]bool // closures being inlined (recursion guard)
	P        *Program
	W        *World
	cx       *fctx
	prefix   string
	safety   bool
	quiet    int // >0: obligations suppressed (inlined / pure evaluation)
	termMode bool
	zeroDepth int
	unroll   int // >0: counterexample-search mode (loops unrolled this many times, no invariants)
	noFacts  int // >0: inside a quantifier / definition body: no fresh constants or facts
	depth    int
	names    map[string]int
	globals  map[types.Object]Term
}

func NewExec(p *Program, w *World, prefix string) *Exec {
	w.ModPath = p.ModPath
	modulePath = p.ModPath
	curWorld = w
	fullyReadonlyCallee = func(fn *types.Func) bool {
		fi := p.ByObj[fn]
		if fi == nil {
			return false
		}
		if fc := p.Contracts.Funcs[fi.Key]; fc != nil && (fc.Flags["readonly"] || fc.Flags["pure"]) {
			return true
		}
		return p.IsReadonly(fi)
	}
	readonlyCallee = func(fn *types.Func) bool {
		fi := p.ByObj[fn]
		if fi == nil {
			return false
		}
		return p.IsRecvReadonly(fi)
	}
	return &Exec{P: p, W: w, prefix: prefix, names: map[string]int{}, globals: map[types.Object]Term{}}
}

func (x *Exec) oblName(kind, detail string) string {
	n := kind
	if detail != "" {
		// obligation names are single tokens (they appear in VIOLATION lines and in known_findings.json)
		n += ":" + strings.Join(strings.Fields(detail), "")
	}
	x.names[n]++
	if c := x.names[n]; c > 1 {
		n = fmt.Sprintf("%s#%d", n, c)
	}
	return x.prefix + "/" + n
}

func (x *Exec) assert(env *Env, kind, detail string, goal Term) {
	if goal.Sort != SBool {
		unsupported("non-boolean assertion %s", goal.S)
	}
	if x.quiet > 0 || x.termMode {
		return
	}
	if goal.S == "true" {
		// still counted: trivially discharged obligations are not emitted
		return
	}
	if x.cx != nil && len(x.cx.splits) > 0 {
		// case analysis requested by the contract: one query per case (all must be discharged)
		name := x.oblName(kind, detail)
		cases := []Term{True}
		for _, sp := range x.cx.splits {
			var next []Term
			for _, c := range cases {
				next = append(next, And(c, sp), And(c, Not(sp)))
			}
			cases = next
		}
		for i, c := range cases {
			x.W.Oblige(fmt.Sprintf("%s[case%d]", name, i+1), kind, And(env.pc, c), goal)
		}
		x.W.AddFact(env.pc, goal)
		return
	}
	x.W.Oblige(x.oblName(kind, detail), kind, env.pc, goal)
	x.W.AddFact(env.pc, goal)
}

func (x *Exec) assume(env *Env, f Term) {
	if x.termMode {
		unsupported("assumption in term mode")
	}
	x.W.AddFact(env.pc, f)
}

// safetyCheck: in safety mode assert then assume; otherwise only assume.
func (x *Exec) safetyCheck(env *Env, kind, detail string, cond Term) {
	if x.termMode {
		return
	}
	if x.safety && x.quiet == 0 {
		x.assert(env, kind, detail, cond)
	} else {
		x.W.AddFact(env.pc, cond)
	}
}

func (x *Exec) fresh(hint string, t types.Type) Term {
	if x.termMode {
		unsupported("fresh symbol in term mode (%s)", hint)
	}
	so := x.W.SortOf(t)
	v := x.W.Fresh(hint, so)
	v.GoT = t
	x.typeFacts(v, t, True)
	return v
}

// named introduces a definitional constant for a large term (keeps queries small and trigger-friendly).
func (x *Exec) named(hint string, v Term) Term {
	if x.termMode || len(v.S) < 24 || v.S == "" {
		return v
	}
	nv := x.W.Fresh(hint, v.Sort)
	nv.GoT = v.GoT
	x.W.Facts = append(x.W.Facts, Eq(nv, v).S)
	return nv
}

// seqUpdateFacts names an updated sequence and states the update at the level of element access
// (at(new,i)==v and the frame for every other index), so that E-matching does not have to go through
// the array encoding.
func (x *Exec) seqUpdateFacts(nv, old, i, v Term) Term {
	if x.termMode || x.unroll > 0 {
		return nv // search mode: the array encoding itself is exact; no derived quantified facts
	}
	c := x.W.Fresh("upd", nv.Sort)
	c.GoT = nv.GoT
	x.W.Facts = append(x.W.Facts, Eq(c, nv).S)
	x.W.Facts = append(x.W.Facts, Eq(x.W.SeqAt(c, i), v).S)
	x.W.nfresh++
	q := fmt.Sprintf("q!%d", x.W.nfresh)
	qi := T(q, SInt)
	x.W.Facts = append(x.W.Facts, fmt.Sprintf("(forall ((%s Int)) (! (=> (not (= %s %s)) (= %s %s)) :pattern (%s)))", q, q, i.S, x.W.SeqAt(c, qi).S, x.W.SeqAt(old, qi).S, x.W.SeqAt(c, qi).S))
	x.prefixFacts(c, old, i)
	x.sumUpdateFacts(c, old, i)
	return c
}

// typeFacts adds range facts for narrow integer types and sequence well-formedness.
func (x *Exec) typeFacts(v Term, t types.Type, pc Term) {
	if f := x.typeInv(v, t); f.S != "true" {
		x.W.AddFact(pc, f)
	}
}

func (x *Exec) typeInv(v Term, t types.Type) Term {
	if t == nil {
		return True
	}
	if _, isStruct := t.Underlying().(*types.Struct); isStruct && x.W.IsSeq(v.Sort) {
		// strings.Builder / bytes.Buffer: modelled as their byte sequence
		return And(Cmp(">=", x.W.SeqLen(v), IntLit(0)), Cmp(">=", x.W.SeqOff(v), IntLit(0)))
	}
	ovf := x.cx != nil && x.cx.fc != nil && (x.cx.fc.Flags["overflow"] || os.Getenv("GOCV_OVERFLOW") != "")
	maxInt := T("9223372036854775807", SInt)
	maxLen := T("281474976710656", SInt) // 2^48: no slice or string is longer (address-space bound)
	switch u := t.Underlying().(type) {
	case *types.Basic:
		if lo, hi, ok := intRange(u); ok {
			return And(Cmp("<=", lo, v), Cmp("<=", v, hi))
		}
		if ovf && (u.Kind() == types.Int || u.Kind() == types.Int64) && v.Sort == SInt {
			// flags overflow: int values are 64-bit machine integers in this unit
			return And(Cmp("<=", T("(- 9223372036854775808)", SInt), v), Cmp("<=", v, maxInt))
		}
		if u.Info()&types.IsString != 0 {
			if ovf {
				return And(Cmp(">=", x.W.SeqLen(v), IntLit(0)), Cmp(">=", x.W.SeqOff(v), IntLit(0)), Cmp("<=", x.W.SeqLen(v), maxLen))
			}
			return And(Cmp(">=", x.W.SeqLen(v), IntLit(0)), Cmp(">=", x.W.SeqOff(v), IntLit(0)))
		}
	case *types.Slice:
		if ovf {
			return And(Cmp(">=", x.W.SeqLen(v), IntLit(0)), Cmp(">=", x.W.SeqOff(v), IntLit(0)), Cmp("<=", x.W.SeqLen(v), maxLen))
		}
		return And(Cmp(">=", x.W.SeqLen(v), IntLit(0)), Cmp(">=", x.W.SeqOff(v), IntLit(0)))
	case *types.Pointer:
		return x.typeInv(v, u.Elem())
	case *types.Struct:
		var fs []Term
		d := x.W.datas[v.Sort]
		if d == nil {
			return True
		}
		for i := 0; i < u.NumFields() && i < len(d.Fields); i++ {
			ft, _ := x.W.Field(v, u.Field(i).Name())
			if ft.S == "" {
				continue
			}
			switch u.Field(i).Type().Underlying().(type) {
			case *types.Basic, *types.Slice:
				fs = append(fs, x.typeInv(ft, u.Field(i).Type()))
			}
		}
		return And(fs...)
	case *types.Map:
		c, _ := x.W.Field(v, "card")
		if kb, ok := u.Key().Underlying().(*types.Basic); ok && kb.Info()&types.IsInteger != 0 {
			// a map keyed by a machine integer has at most 2^64 keys
			return And(Cmp(">=", c, IntLit(0)), Cmp("<=", c, T("18446744073709551616", SInt)))
		}
		return Cmp(">=", c, IntLit(0))
	}
	return True
}

func intRange(b *types.Basic) (Term, Term, bool) {
	switch b.Kind() {
	case types.Uint8:
		return IntLit(0), IntLit(255), true
	case types.Uint16:
		return IntLit(0), IntLit(65535), true
	case types.Uint32:
		return IntLit(0), IntLit(4294967295), true
	case types.Uint64, types.Uint, types.Uintptr:
		return IntLit(0), T("18446744073709551615", SInt), true
	case types.Int8:
		return IntLit(-128), IntLit(127), true
	case types.Int16:
		return IntLit(-32768), IntLit(32767), true
	case types.Int32:
		return IntLit(-2147483648), IntLit(2147483647), true
	}
	return Term{}, Term{}, false
}

// wrap reduces an integer term into the range of basic type b (exact modular arithmetic for narrow types).
func wrap(v Term, t types.Type) Term {
	if t == nil || v.Sort != SInt {
		return v
	}
	b, ok := t.Underlying().(*types.Basic)
	if !ok {
		return v
	}
	switch b.Kind() {
	case types.Uint8:
		return T("(mod "+v.S+" 256)", SInt)
	case types.Uint16:
		return T("(mod "+v.S+" 65536)", SInt)
	case types.Uint32:
		return T("(mod "+v.S+" 4294967296)", SInt)
	case types.Uint64, types.Uint, types.Uintptr:
		return T("(mod "+v.S+" 18446744073709551616)", SInt)
	case types.Int8:
		return T("(- (mod (+ "+v.S+" 128) 256) 128)", SInt)
	case types.Int16:
		return T("(- (mod (+ "+v.S+" 32768) 65536) 32768)", SInt)
	case types.Int32:
		return T("(- (mod (+ "+v.S+" 2147483648) 4294967296) 2147483648)", SInt)
	}
	return v
}

func isNarrow(t types.Type) bool {
	if t == nil {
		return false
	}
	b, ok := t.Underlying().(*types.Basic)
	if !ok {
		return false
	}
	_, _, r := intRange(b)
	return r
}

// zero value of a Go type
func (x *Exec) zero(t types.Type) Term {
	so := x.W.SortOf(t)
	var r Term
	x.zeroDepth++
	defer func() { x.zeroDepth-- }()
	if x.zeroDepth > 6 {
		r = x.opaqueZero(so, t)
		r.GoT = t
		return r
	}
	if _, isStruct := t.Underlying().(*types.Struct); isStruct && x.W.IsSeq(so) {
		// bytes.Buffer / strings.Builder: empty byte sequence
		r = x.W.MkSeq(so, ConstArray(ArraySort(SInt, SInt), IntLit(0)), IntLit(0), IntLit(0))
		r.GoT = t
		return r
	}
	switch u := t.Underlying().(type) {
	case *types.Basic:
		switch {
		case u.Info()&types.IsBoolean != 0:
			r = False
		case u.Info()&types.IsInteger != 0:
			r = IntLit(0)
		case u.Info()&types.IsFloat != 0:
			r = T("0.0", SReal)
		case u.Info()&types.IsString != 0:
			r = StringLit(x.W, "")
		default:
			r = x.opaqueZero(so, t)
		}
	case *types.Slice:
		es := x.W.SortOf(u.Elem())
		var ez Term
		if _, basic := u.Elem().Underlying().(*types.Basic); basic {
			ez = x.zero(u.Elem())
		} else {
			ez = x.opaqueZero(es, u.Elem())
		}
		r = x.W.MkSeq(so, ConstArray(ArraySort(SInt, es), ez), IntLit(0), IntLit(0))
	case *types.Array:
		r = ConstArray(so, x.zero(u.Elem()))
	case *types.Struct:
		if so == SBool { // error-like
			r = False
			break
		}
		d := x.W.datas[so]
		if d == nil || strings.HasPrefix(string(so), "U_") {
			r = x.opaqueZero(so, t)
			break
		}
		var vals []Term
		for i := 0; i < u.NumFields(); i++ {
			fz := x.zero(u.Field(i).Type())
			if fz.Sort != d.Fields[i].Sort {
				fz = x.opaqueZero(d.Fields[i].Sort, u.Field(i).Type())
			}
			vals = append(vals, fz)
		}
		if u.NumFields() == 0 {
			vals = append(vals, True)
		}
		r = x.W.Mk(so, vals...)
	case *types.Pointer:
		// the nil pointer is a distinguished (otherwise unconstrained) value of the pointee sort
		name := "nilptr_" + sanitize(string(so))
		r = x.W.DeclareConst(name, so)
		pn := "isnilptr_" + sanitize(string(so))
		x.W.DeclareFun(pn, []Sort{so}, SBool)
		if !x.W.constSeen[name+"$ax"] {
			x.W.constSeen[name+"$ax"] = true
			x.W.Facts = append([]string{"(" + pn + " " + name + ")"}, x.W.Facts...)
			for _, o := range x.W.Obls {
				o.FactsN++
			}
		}
	case *types.Map:
		ks, vs := x.W.SortOf(u.Key()), x.W.SortOf(u.Elem())
		r = x.W.Mk(so, ConstArray(ArraySort(ks, SBool), False), ConstArray(ArraySort(ks, vs), x.zero(u.Elem())), IntLit(0))
	case *types.Interface:
		if so == SBool {
			r = False
		} else {
			r = x.opaqueZero(so, t)
		}
	default:
		r = x.opaqueZero(so, t)
	}
	r.GoT = t
	return r
}

func (x *Exec) opaqueZero(so Sort, t types.Type) Term {
	name := "zero_" + sanitize(string(so))
	return x.W.DeclareConst(name, so)
}

// ---------------------------------------------------------------------
// merging

func (x *Exec) merge(envs []*Env) *Env {
	var live []*Env
	for _, e := range envs {
		if e != nil && e.pc.S != "false" {
			live = append(live, e)
		}
	}
	if len(live) == 0 {
		return nil
	}
	if len(live) == 1 {
		return live[0]
	}
	out := &Env{vars: map[types.Object]Term{}}
	var pcs []Term
	for _, e := range live {
		pcs = append(pcs, e.pc)
	}
	if x.termMode {
		out.pc = Or(pcs...)
	} else {
		npc := x.W.Fresh("pc", SBool)
		x.W.Facts = append(x.W.Facts, Eq(npc, Or(pcs...)).S)
		out.pc = npc
	}
	// variables present in any live env (a variable not in scope on some path gets an unconstrained value there)
	keys := map[types.Object]bool{}
	for _, e := range live {
		for k := range e.vars {
			keys[k] = true
		}
	}
	var ordered []types.Object
	for k := range keys {
		ordered = append(ordered, k)
	}
	sort.Slice(ordered, func(i, j int) bool {
		if ordered[i].Pos() != ordered[j].Pos() {
			return ordered[i].Pos() < ordered[j].Pos()
		}
		return ordered[i].Name() < ordered[j].Name()
	})
	for _, k := range ordered {
		var first Term
		for _, e := range live {
			if v, ok := e.vars[k]; ok {
				first = v
				break
			}
		}
		same := true
		for _, e := range live {
			v, ok := e.vars[k]
			if !ok {
				if x.termMode {
					same = false
					continue
				}
				nv := x.W.Fresh(k.Name()+"_oos", first.Sort)
				nv.GoT = first.GoT
				e.vars[k] = nv
				v = nv
			}
			if v.S != first.S {
				same = false
			}
		}
		if same {
			out.vars[k] = first
			continue
		}
		if x.termMode {
			var r Term
			for i := len(live) - 1; i >= 0; i-- {
				v, ok := live[i].vars[k]
				if !ok {
					continue
				}
				if r.S == "" {
					r = v
				} else {
					r = Ite(live[i].pc, v, r)
				}
			}
			r.GoT = first.GoT
			out.vars[k] = r
			continue
		}
		nv := x.W.Fresh(k.Name(), first.Sort)
		nv.GoT = first.GoT
		for _, e := range live {
			x.W.Facts = append(x.W.Facts, Implies(e.pc, Eq(nv, e.vars[k])).S)
		}
		out.vars[k] = nv
	}
	return out
}

// branch returns a copy of env with pc strengthened by cond.
func (x *Exec) branch(env *Env, cond Term) *Env {
	n := env.clone()
	if x.termMode {
		n.pc = And(env.pc, cond)
		return n
	}
	c := And(env.pc, cond)
	if c.S == "true" || c.S == "false" || len(c.S) < 40 {
		n.pc = c
		return n
	}
	npc := x.W.Fresh("pc", SBool)
	x.W.Facts = append(x.W.Facts, Eq(npc, c).S)
	n.pc = npc
	return n
}

// ---------------------------------------------------------------------
// statements

func (x *Exec) execBlock(stmts []ast.Stmt, env *Env) *Env {
	for _, s := range stmts {
		if env == nil {
			return nil
		}
		env = x.execStmt(s, env, "")
	}
	return env
}

func (x *Exec) execStmt(s ast.Stmt, env *Env, label string) *Env {
	switch s := s.(type) {
	case *ast.BlockStmt:
		return x.execBlock(s.List, env)
	case *ast.ExprStmt:
		x.evalMulti(s.X, env)
		if call, ok := s.X.(*ast.CallExpr); ok {
			if id, ok := call.Fun.(*ast.Ident); ok && id.Name == "panic" {
				if _, isB := x.cx.info.Uses[id].(*types.Builtin); isB {
					return nil
				}
			}
		}
		return env
	case *ast.EmptyStmt:
		return env
	case *ast.LabeledStmt:
		return x.execStmt(s.Stmt, env, s.Label.Name)
	case *ast.DeclStmt:
		gd, ok := s.Decl.(*ast.GenDecl)
		if !ok {
			unsupported("decl stmt")
		}
		if gd.Tok == token.CONST || gd.Tok == token.TYPE {
			return env
		}
		for _, spec := range gd.Specs {
			vs := spec.(*ast.ValueSpec)
			if len(vs.Values) == 0 {
				for _, n := range vs.Names {
					obj := x.cx.info.Defs[n]
					if obj != nil {
						env.vars[obj] = x.zero(obj.Type())
					}
				}
				continue
			}
			if len(vs.Values) == len(vs.Names) {
				var vals []Term
				for i, v := range vs.Values {
					obj := x.cx.info.Defs[vs.Names[i]]
					var t types.Type
					if obj != nil {
						t = obj.Type()
					}
					vals = append(vals, x.evalAs(v, env, t))
				}
				for i, n := range vs.Names {
					if obj := x.cx.info.Defs[n]; obj != nil {
						env.vars[obj] = vals[i]
					}
				}
				continue
			}
			vals := x.evalMulti(vs.Values[0], env)
			for i, n := range vs.Names {
				if obj := x.cx.info.Defs[n]; obj != nil && i < len(vals) {
					env.vars[obj] = vals[i]
				}
			}
		}
		return env
	case *ast.AssignStmt:
		return x.execAssign(s, env)
	case *ast.IncDecStmt:
		cur := x.eval(s.X, env)
		t := x.cx.info.TypeOf(s.X)
		op := "+"
		if s.Tok == token.DEC {
			op = "-"
		}
		var nv Term
		if cur.Sort == SReal {
			nv = Arith(op, cur, T("1.0", SReal))
		} else {
			nv = wrap(Arith(op, cur, IntLit(1)), t)
		}
		nv.GoT = t
		x.assign(s.X, nv, env)
		return env
	case *ast.IfStmt:
		if s.Init != nil {
			env = x.execStmt(s.Init, env, "")
			if env == nil {
				return nil
			}
		}
		c := x.eval(s.Cond, env)
		thenEnv := x.branch(env, c)
		elseEnv := x.branch(env, Not(c))
		thenOut := x.execBlock(s.Body.List, thenEnv)
		var elseOut *Env
		if s.Else != nil {
			elseOut = x.execStmt(s.Else, elseEnv, "")
		} else {
			elseOut = elseEnv
		}
		return x.merge([]*Env{thenOut, elseOut})
	case *ast.ReturnStmt:
		var vals []Term
		if len(s.Results) == 0 {
			for _, rv := range x.cx.results {
				vals = append(vals, env.vars[rv])
			}
		} else if len(s.Results) == 1 && len(x.cx.results) > 1 {
			vals = x.evalMulti(s.Results[0], env)
		} else {
			for i, r := range s.Results {
				var t types.Type
				if i < len(x.cx.results) {
					t = x.cx.results[i].Type()
				}
				vals = append(vals, x.evalAs(r, env, t))
			}
		}
		if x.cx.fc != nil && len(x.cx.fc.AtReturn) > 0 && x.quiet == 0 && x.unroll == 0 {
			success := len(x.cx.results) == 0 // a function without results has no failure returns
			if len(s.Results) > 0 {
				if id, ok := ast.Unparen(s.Results[len(s.Results)-1]).(*ast.Ident); ok && id.Name == "nil" {
					success = true
				}
			}
			sc := x.scopeAt(env, s.Pos())
			for i, v := range vals {
				sc.locals[fmt.Sprintf("$ret%d", i)] = v // the values being returned: $ret0, $ret1, ...
			}
			ord := x.returnOrdinal(s)
			for i, c := range x.cx.fc.AtReturn {
				if (c.Ordinal > 0 && c.Ordinal != ord) || (c.Ordinal == 0 && !success) {
					continue
				}
				if x.cx.atretApplied == nil {
					x.cx.atretApplied = map[int]bool{}
				}
				x.cx.atretApplied[i] = true
				x.assert(env, "atreturn:"+clauseName(c, i), "", sc.EvalBool(c.Expr))
			}
		}
		x.cx.rets = append(x.cx.rets, retRec{env: env.clone(), vals: vals})
		return nil
	case *ast.BranchStmt:
		switch s.Tok {
		case token.BREAK:
			f := x.findFrame(s.Label, true)
			f.breaks = append(f.breaks, env)
			return nil
		case token.CONTINUE:
			f := x.findFrame(s.Label, false)
			f.continues = append(f.continues, env)
			return nil
		}
		unsupported("branch statement %s", s.Tok)
	case *ast.ForStmt:
		return x.execFor(s, env, label)
	case *ast.RangeStmt:
		return x.execRange(s, env, label)
	case *ast.SwitchStmt:
		return x.execSwitch(s, env, label)
	case *ast.TypeSwitchStmt:
		return x.execTypeSwitch(s, env, label)
	case *ast.DeferStmt:
		// only library Close()-like defers are tolerated (no effect on modelled state)
		if fn := x.calleeOf(s.Call); fn != nil {
			if _, inMod := x.P.ByObj[fn]; !inMod {
				x.W.Note("defer " + x.P.KeyOf(fn) + " ignored")
				return env
			}
		}
		// defer func() { delete(m, k) }(): the same as defer delete(m, k) when k is not reassigned afterwards (k is
		// evaluated here; the literal has no parameters and its body is that one statement)
		if fl, ok := ast.Unparen(s.Call.Fun).(*ast.FuncLit); ok && len(s.Call.Args) == 0 && len(fl.Body.List) == 1 {
			if es, ok := fl.Body.List[0].(*ast.ExprStmt); ok {
				if dc, ok := es.X.(*ast.CallExpr); ok {
					if id, ok := ast.Unparen(dc.Fun).(*ast.Ident); ok && id.Name == "delete" && len(dc.Args) == 2 {
						if _, isBuiltin := x.cx.info.Uses[id].(*types.Builtin); isBuiltin {
							return x.execStmt(&ast.DeferStmt{Defer: s.Defer, Call: dc}, env, label)
						}
					}
				}
			}
		}
		// defer delete(m, k) on a local map outside loops: applied at the function exit
		if id, ok := ast.Unparen(s.Call.Fun).(*ast.Ident); ok && id.Name == "delete" && len(s.Call.Args) == 2 {
			if _, isBuiltin := x.cx.info.Uses[id].(*types.Builtin); isBuiltin {
				mexpr := ast.Unparen(s.Call.Args[0])
				_, isId := mexpr.(*ast.Ident)
				_, isSel := mexpr.(*ast.SelectorExpr)
				if isId || isSel {
					for _, f := range x.cx.frames {
						if f.kind == "loop" {
							unsupported("defer inside a loop")
						}
					}
					mt := x.cx.info.TypeOf(mexpr).Underlying().(*types.Map)
					k := x.evalAs(s.Call.Args[1], env, mt.Key())
					x.cx.defers = append(x.cx.defers, deferRec{expr: mexpr, key: k, pc: env.pc})
					return env
				}
			}
		}
		// defer of an in-module method/function call with evaluated-at-exit semantics approximated: the call is
		// executed (by contract, inlined or abstractly) on the merged exit state of the paths that passed the defer
		if fn := x.calleeOf(s.Call); fn != nil {
			if _, inMod := x.P.ByObj[fn]; inMod {
				for _, f := range x.cx.frames {
					if f.kind == "loop" {
						unsupported("defer inside a loop")
					}
				}
				for _, a := range s.Call.Args {
					if _, isLit := ast.Unparen(a).(*ast.BasicLit); !isLit {
						unsupported("defer of in-module call with non-literal arguments")
					}
				}
				x.cx.defers = append(x.cx.defers, deferRec{call: s.Call, pc: env.pc})
				return env
			}
		}
		unsupported("defer of in-module call")
	case *ast.GoStmt, *ast.SelectStmt, *ast.SendStmt:
		unsupported("concurrency statement")
	}
	unsupported("statement %T", s)
	return nil
}

func (x *Exec) findFrame(label *ast.Ident, isBreak bool) *frame {
	for i := len(x.cx.frames) - 1; i >= 0; i-- {
		f := x.cx.frames[i]
		if label != nil {
			if f.label == label.Name {
				return f
			}
			continue
		}
		if isBreak || f.kind == "loop" {
			return f
		}
	}
	unsupported("break/continue without enclosing frame")
	return nil
}

func (x *Exec) execAssign(s *ast.AssignStmt, env *Env) *Env {
	info := x.cx.info
	if s.Tok != token.ASSIGN && s.Tok != token.DEFINE {
		// op-assign
		binop := map[token.Token]token.Token{token.ADD_ASSIGN: token.ADD, token.SUB_ASSIGN: token.SUB, token.MUL_ASSIGN: token.MUL,
			token.QUO_ASSIGN: token.QUO, token.REM_ASSIGN: token.REM, token.AND_ASSIGN: token.AND, token.OR_ASSIGN: token.OR,
			token.XOR_ASSIGN: token.XOR, token.SHL_ASSIGN: token.SHL, token.SHR_ASSIGN: token.SHR, token.AND_NOT_ASSIGN: token.AND_NOT}[s.Tok]
		lt := info.TypeOf(s.Lhs[0])
		l := x.eval(s.Lhs[0], env)
		r := x.evalAs(s.Rhs[0], env, lt)
		v := x.binop(binop, l, r, lt, info.TypeOf(s.Rhs[0]), env, s.Rhs[0], s)
		x.assign(s.Lhs[0], v, env)
		return env
	}
	var vals []Term
	if len(s.Rhs) == 1 && len(s.Lhs) > 1 {
		vals = x.evalMulti(s.Rhs[0], env)
		if len(vals) != len(s.Lhs) {
			unsupported("multi-assign arity")
		}
	} else {
		for i, r := range s.Rhs {
			// closures bound to a local name
			if fl, ok := r.(*ast.FuncLit); ok && len(s.Lhs) == len(s.Rhs) {
				if id, ok := s.Lhs[i].(*ast.Ident); ok {
					obj := info.Defs[id]
					if obj == nil {
						obj = info.Uses[id]
					}
					if obj != nil {
						x.cx.closures[obj] = fl
						vals = append(vals, Term{})
						continue
					}
				}
			}
			vals = append(vals, x.evalAs(r, env, info.TypeOf(s.Lhs[i])))
		}
	}
	for i, l := range s.Lhs {
		if vals[i].S == "" {
			continue
		}
		if s.Tok == token.DEFINE {
			if id, ok := l.(*ast.Ident); ok {
				if id.Name == "_" {
					continue
				}
				if obj := info.Defs[id]; obj != nil && len(s.Lhs) == len(s.Rhs) {
					// p := &s[i]... : p is an alias of that location (writes through p update the element)
					if u, isAddr := ast.Unparen(s.Rhs[i]).(*ast.UnaryExpr); isAddr && u.Op == token.AND {
						if _, isIx := ast.Unparen(u.X).(*ast.IndexExpr); isIx && isAddressable(u.X) {
							if x.cx.aliases == nil {
								x.cx.aliases = map[types.Object]ast.Expr{}
							}
							x.cx.aliases[obj] = u.X
							x.W.Note("pointer " + id.Name + " := &" + types.ExprString(u.X) + " treated as an alias of that element (its index variables are assumed unchanged while the alias is used)")
						}
					}
				}
				if obj := info.Defs[id]; obj != nil {
					v := vals[i]
					v.GoT = obj.Type()
					env.vars[obj] = x.named(id.Name, v)
					continue
				}
			}
		}
		x.sharedPointerWrite(l, env)
		x.assign(l, vals[i], env)
	}
	return env
}

// ---------------------------------------------------------------------
// Writes through copied pointers (soundness of the owned-box model, assumption A5)
//
// Pointers are modelled as owned boxes: copying a pointer copies the box.  Where the function itself COPIES a pointer
// from one place to another (p := q, for _, p := range ps, T{F: p}, x.F = p with p not freshly allocated) and later
// writes through the copy (copy.f = v), the real program also changes the object the original pointer refers to.
// The model cannot say which one, so at such a write every variable that holds pointers to the same struct type
// becomes unknown (slices keep their length).  Proofs that need the old contents after such a write fail - which is
// the sound answer for code that aliases.

func (x *Exec) copiedPointers() map[types.Object]bool {
	if x.cx.copiedPtr != nil {
		return x.cx.copiedPtr
	}
	info := x.cx.info
	out := map[types.Object]bool{}
	isModPtr := func(t types.Type) bool {
		if t == nil {
			return false
		}
		pt, ok := t.Underlying().(*types.Pointer)
		if !ok {
			return false
		}
		n, ok := pt.Elem().(*types.Named)
		if !ok || n.Obj().Pkg() == nil {
			return false
		}
		_, isStruct := n.Underlying().(*types.Struct)
		return isStruct && x.P.ByName[n.Obj().Pkg().Name()] != nil
	}
	fresh := func(e ast.Expr) bool {
		switch v := ast.Unparen(e).(type) {
		case *ast.UnaryExpr:
			return v.Op == token.AND
		case *ast.CallExpr:
			return true
		case *ast.Ident:
			return v.Name == "nil"
		}
		return false
	}
	record := func(target ast.Expr) {
		switch t := ast.Unparen(target).(type) {
		case *ast.Ident:
			if o := info.Defs[t]; o != nil {
				out[o] = true
			} else if o := info.Uses[t]; o != nil {
				out[o] = true
			}
		case *ast.SelectorExpr:
			if sel, ok := info.Selections[t]; ok && sel.Kind() == types.FieldVal {
				out[sel.Obj()] = true
			}
		}
	}
	ast.Inspect(x.cx.fi.Decl.Body, func(n ast.Node) bool {
		switch s := n.(type) {
		case *ast.AssignStmt:
			if len(s.Lhs) == len(s.Rhs) {
				for i := range s.Lhs {
					if isModPtr(info.TypeOf(s.Rhs[i])) && !fresh(s.Rhs[i]) {
						record(s.Lhs[i])
					}
				}
			}
		case *ast.KeyValueExpr:
			// (the value variable of a range over a slice of pointers is modelled exactly: writes through it are
			// written back to the element)
			if isModPtr(info.TypeOf(s.Value)) && !fresh(s.Value) {
				if id, ok := s.Key.(*ast.Ident); ok {
					if o := info.Uses[id]; o != nil {
						out[o] = true
					}
				}
			}
		}
		return true
	})
	x.cx.copiedPtr = out
	return out
}

func (x *Exec) sharedPointerWrite(l ast.Expr, env *Env) {
	if t := x.sharedWriteType(l); t != nil {
		// the variable written THROUGH keeps what is known about the other fields of its pointee: the store changes
		// exactly one field of exactly that object (p.f = v, p.s.f = v with p a local pointer variable)
		var keep types.Object
		var keepVal Term
		cur := ast.Unparen(l)
		for {
			se, ok := cur.(*ast.SelectorExpr)
			if !ok {
				break
			}
			if sel, isSel := x.cx.info.Selections[se]; !isSel || sel.Kind() != types.FieldVal {
				break
			}
			cur = ast.Unparen(se.X)
			if id, isId := cur.(*ast.Ident); isId {
				// root.f = v (root the copied pointer itself) or root.p.f = v (the copied pointer is a field of the
				// object root designates): the functional update below rewrites exactly that path of root; root's other
				// fields are not touched by the store.  (Assumes one object does not hold two pointers to the same
				// target object: assumption A12.)
				if o := x.cx.info.Uses[id]; o != nil {
					if v, have := env.vars[o]; have {
						keep, keepVal = o, v
					}
				}
				break
			}
		}
		x.havocPointeesOf(t, env, types.ExprString(l))
		if keep != nil {
			env.vars[keep] = keepVal
		}
	}
}

// sharedWriteType: the lvalue l writes THROUGH a pointer that this function copied from elsewhere; returns the
// pointer type, or nil.
func (x *Exec) sharedWriteType(l ast.Expr) types.Type {
	if x.termMode || x.cx == nil || x.cx.fi == nil {
		return nil
	}
	info := x.cx.info
	copied := x.copiedPointers()
	if len(copied) == 0 {
		return nil
	}
	cur := ast.Unparen(l)
	first := true
	for {
		var next ast.Expr
		switch v := cur.(type) {
		case *ast.SelectorExpr:
			next = v.X
			if !first {
				if sel, ok := info.Selections[v]; ok && sel.Kind() == types.FieldVal && copied[sel.Obj()] {
					return info.TypeOf(v)
				}
			}
		case *ast.IndexExpr:
			next = v.X
		case *ast.StarExpr:
			next = v.X
		case *ast.ParenExpr:
			next = v.X
		case *ast.Ident:
			if !first {
				if o := info.Uses[v]; o != nil && copied[o] {
					return info.TypeOf(v)
				}
			}
			return nil
		default:
			return nil
		}
		first = false
		cur = ast.Unparen(next)
	}
}

// sharedWriteMods: variables that a loop body may change by writing through copied pointers (added to the
// loop's modified set so that the havoc survives the loop cut).
func (x *Exec) sharedWriteMods(body ast.Node, env *Env, mod map[types.Object]bool) {
	if body == nil || x.cx == nil || x.cx.fi == nil {
		return
	}
	var ts []types.Type
	ast.Inspect(body, func(n ast.Node) bool {
		switch s := n.(type) {
		case *ast.AssignStmt:
			for _, l := range s.Lhs {
				if t := x.sharedWriteType(l); t != nil {
					ts = append(ts, t)
				}
			}
		case *ast.IncDecStmt:
			if t := x.sharedWriteType(s.X); t != nil {
				ts = append(ts, t)
			}
		}
		return true
	})
	for _, t := range ts {
		for _, o := range x.pointeeHolders(t, env) {
			mod[o] = true
		}
	}
}

// pointeeHolders: variables of env whose type can hold a pointer to the struct type ptrT points to.
func (x *Exec) pointeeHolders(ptrT types.Type, env *Env) []types.Object {
	pt, ok := ptrT.Underlying().(*types.Pointer)
	if !ok {
		return nil
	}
	target := pt.Elem()
	var contains func(t types.Type, depth int) bool
	contains = func(t types.Type, depth int) bool {
		if depth > 4 {
			return false
		}
		switch u := t.(type) {
		case *types.Pointer:
			return types.Identical(u.Elem(), target) || contains(u.Elem(), depth+1)
		case *types.Slice:
			return contains(u.Elem(), depth+1)
		case *types.Array:
			return contains(u.Elem(), depth+1)
		case *types.Map:
			return contains(u.Elem(), depth+1)
		case *types.Named:
			if st, ok := u.Underlying().(*types.Struct); ok {
				if types.Identical(u, target) {
					return false
				}
				for i := 0; i < st.NumFields(); i++ {
					if contains(st.Field(i).Type(), depth+1) {
						return true
					}
				}
				return false
			}
			return contains(u.Underlying(), depth+1)
		}
		return false
	}
	var objs []types.Object
	for o := range env.vars {
		if contains(o.Type(), 0) {
			objs = append(objs, o)
		}
	}
	sort.Slice(objs, func(i, j int) bool { return objs[i].Pos() < objs[j].Pos() })
	return objs
}

func (x *Exec) havocPointeesOf(ptrT types.Type, env *Env, what string) {
	pt, ok := ptrT.Underlying().(*types.Pointer)
	if !ok {
		return
	}
	target := pt.Elem()
	var contains func(t types.Type, depth int) bool
	contains = func(t types.Type, depth int) bool {
		if depth > 4 {
			return false
		}
		switch u := t.(type) {
		case *types.Pointer:
			return types.Identical(u.Elem(), target) || contains(u.Elem(), depth+1)
		case *types.Slice:
			return contains(u.Elem(), depth+1)
		case *types.Array:
			return contains(u.Elem(), depth+1)
		case *types.Map:
			return contains(u.Elem(), depth+1)
		case *types.Named:
			if st, ok := u.Underlying().(*types.Struct); ok {
				if types.Identical(u, target) {
					return false // a struct VALUE of the type is not reachable through another pointer
				}
				for i := 0; i < st.NumFields(); i++ {
					if contains(st.Field(i).Type(), depth+1) {
						return true
					}
				}
				return false
			}
			return contains(u.Underlying(), depth+1)
		}
		return false
	}
	_ = contains
	objs := x.pointeeHolders(ptrT, env)
	n := 0
	for _, o := range objs {
		cur := env.vars[o]
		nv := x.fresh(o.Name(), o.Type())
		if nv.Sort != cur.Sort {
			continue
		}
		if x.W.IsSeq(cur.Sort) {
			// same slice header, unknown elements
			if b, ok := x.W.Field(nv, "base"); ok {
				if keep, ok := x.W.WithField(cur, "base", b); ok {
					keep.GoT = cur.GoT
					nv = keep
				}
			}
		} else {
			pn := "isnilptr_" + sanitize(string(cur.Sort))
			if _, isPtr := o.Type().Underlying().(*types.Pointer); isPtr {
				x.W.DeclareFun(pn, []Sort{cur.Sort}, SBool)
				x.W.AddFact(env.pc, Eq(T("("+pn+" "+nv.S+")", SBool), T("("+pn+" "+cur.S+")", SBool)))
			}
		}
		env.vars[o] = nv
		n++
	}
	if n > 0 {
		x.W.Note(fmt.Sprintf("write through a copied pointer (%s): %d variable(s) that may hold the same %s object are unknown afterwards", what, n, types.TypeString(target, nil)))
	}
}

// assign stores v into the lvalue l (functional update of the root variable).
func (x *Exec) assign(l ast.Expr, v Term, env *Env) {
	if x.termMode && len(v.S) > 1<<17 {
		// term-mode compilation cannot name intermediate values: give up before the term explodes
		unsupported("term too large for term-mode compilation")
	}
	info := x.cx.info
	switch l := l.(type) {
	case *ast.Ident:
		if l.Name == "_" {
			return
		}
		obj := info.Uses[l]
		if obj == nil {
			obj = info.Defs[l]
		}
		if obj == nil {
			unsupported("assign to unknown ident %s", l.Name)
		}
		if x.cx.aliases != nil {
			if tgt, isAlias := x.cx.aliases[obj]; isAlias {
				x.assign(tgt, v, env)
				return
			}
		}
		if _, isVar := obj.(*types.Var); isVar && obj.Parent() == obj.Pkg().Scope() {
			x.globals[obj] = v
			x.W.Note("write to package-level variable " + obj.Name())
			return
		}
		want := x.W.SortOf(obj.Type())
		if v.Sort == SInt && want == SReal {
			v = ToReal(v)
		}
		if v.Sort != want {
			v = x.coerce(v, want)
		}
		if v.Sort != want {
			x.W.Note(fmt.Sprintf("sort mismatch on assignment to %s (%s vs %s): abstracted", l.Name, v.Sort, want))
			v = x.fresh(l.Name, obj.Type())
		}
		v.GoT = obj.Type()
		env.vars[obj] = x.named(l.Name, v)
	case *ast.ParenExpr:
		x.assign(l.X, v, env)
	case *ast.StarExpr:
		x.assign(l.X, v, env)
		if pt := info.TypeOf(l.X); pt != nil && !x.termMode {
			if _, isPtr := pt.Underlying().(*types.Pointer); isPtr {
				// *p = v succeeded, so p is not nil afterwards either (nil-ness is a predicate of the box value)
				nv := x.eval(l.X, env)
				pn := "isnilptr_" + sanitize(string(nv.Sort))
				x.W.DeclareFun(pn, []Sort{nv.Sort}, SBool)
				x.W.AddFact(env.pc, Not(T("("+pn+" "+nv.S+")", SBool)))
			}
		}
	case *ast.SelectorExpr:
		if sel, ok := info.Selections[l]; ok && sel.Kind() == types.FieldVal {
			// s[i].f = v : folds over s that never look at field f are unaffected (for every prefix length)
			if ix, isIx := ast.Unparen(l.X).(*ast.IndexExpr); isIx && !x.termMode {
				if _, isSlice := derefType(info.TypeOf(ix.X)).Underlying().(*types.Slice); isSlice {
					oldSeq := x.eval(ix.X, env)
					defer func() {
						newSeq := x.eval(ix.X, env)
						if newSeq.S != oldSeq.S {
							x.fieldFrameFacts(newSeq, oldSeq, l.Sel.Name)
						}
					}()
				}
			}
			cur := x.eval(l.X, env)
			// walk embedded path
			nv, ok := x.setFieldPath(cur, derefType(info.TypeOf(l.X)), sel.Index(), v)
			if !ok {
				x.W.Note("field store on unmodelled struct: " + types.ExprString(l))
				x.assign(l.X, x.fresh("st", info.TypeOf(l.X)), env)
				return
			}
			if _, isPtr := info.TypeOf(l.X).Underlying().(*types.Pointer); isPtr && !x.termMode && nv.Sort == cur.Sort {
				// a store through a pointer does not change whether the pointer is nil (it was not: the store succeeded)
				pn := "isnilptr_" + sanitize(string(cur.Sort))
				x.W.DeclareFun(pn, []Sort{cur.Sort}, SBool)
				x.W.AddFact(env.pc, Not(T("("+pn+" "+nv.S+")", SBool)))
			}
			x.assign(l.X, nv, env)
			return
		}
		// package-qualified global
		if obj := info.Uses[l.Sel]; obj != nil {
			x.globals[obj] = v
			x.W.Note("write to package-level variable " + obj.Name())
			return
		}
		unsupported("assign to selector %s", types.ExprString(l))
	case *ast.IndexExpr:
		xt := info.TypeOf(l.X)
		cur := x.eval(l.X, env)
		switch u := derefType(xt).Underlying().(type) {
		case *types.Slice:
			i := x.eval(l.Index, env)
			x.safetyCheck(env, "index", types.ExprString(l), And(Cmp("<=", IntLit(0), i), Cmp("<", i, x.W.SeqLen(cur))))
			ev := x.coerce(v, x.W.SeqElem(cur.Sort))
			nb := Store(x.W.SeqBase(cur), Arith("+", x.W.SeqOff(cur), i), ev)
			nv, _ := x.W.WithField(cur, "base", nb)
			nv.GoT = xt
			nv = x.seqUpdateFacts(nv, cur, i, ev)
			x.assign(l.X, nv, env)
		case *types.Array:
			i := x.eval(l.Index, env)
			x.safetyCheck(env, "index", types.ExprString(l), And(Cmp("<=", IntLit(0), i), Cmp("<", i, IntLit(u.Len()))))
			nv := Store(cur, i, x.coerce(v, arrayElem(cur.Sort)))
			nv.GoT = xt
			x.assign(l.X, nv, env)
		case *types.Map:
			k := x.evalAs(l.Index, env, u.Key())
			dom, _ := x.W.Field(cur, "dom")
			val, _ := x.W.Field(cur, "val")
			card, _ := x.W.Field(cur, "card")
			ncard := Ite(Select(dom, k), card, Arith("+", card, IntLit(1)))
			nv := x.W.Mk(cur.Sort, Store(dom, k, True), Store(val, k, x.coerce(v, arrayElem(val.Sort))), ncard)
			nv.GoT = xt
			x.assign(l.X, nv, env)
			// execution continues past a map store only if the map was not nil (the nil-map store itself is not
			// a checked safety obligation: see DESIGN 9.12)
			if mt := derefType(xt); mt != nil && !x.termMode {
				x.W.AddFact(env.pc, x.nilCompare(token.NEQ, nv, mt, l.X, env))
			}
		default:
			unsupported("index assign on %s", xt)
		}
	default:
		unsupported("assign to %T", l)
	}
}

func (x *Exec) coerce(v Term, so Sort) Term {
	if v.Sort == SInt && so == SReal {
		return ToReal(v)
	}
	if v.Sort != so && v.Sort != "" {
		// field-wise conversion between the full and the one-level-unrolled datatype of the same Go struct
		dv, dw := x.W.datas[v.Sort], x.W.datas[so]
		if dv != nil && dw != nil && len(dv.Fields) == len(dw.Fields) && len(dv.Fields) > 0 && dv.GoT != nil && dw.GoT != nil && dv.GoT.String() == dw.GoT.String() {
			var vals []Term
			for i, f := range dw.Fields {
				fv, _ := x.W.Field(v, dv.Fields[i].Name)
				if fv.Sort != f.Sort {
					fv = x.coerce(fv, f.Sort)
					if fv.Sort != f.Sort {
						fv = x.opaqueFrom(fv, f.Sort)
					}
				}
				vals = append(vals, fv)
			}
			r := x.W.Mk(so, vals...)
			r.GoT = v.GoT
			return r
		}
	}
	return v
}

func derefType(t types.Type) types.Type {
	if p, ok := t.Underlying().(*types.Pointer); ok {
		return p.Elem()
	}
	return t
}

// setFieldPath sets the field reached by index path (through embedded structs).
func (x *Exec) setFieldPath(cur Term, t types.Type, path []int, v Term) (Term, bool) {
	st, ok := derefType(t).Underlying().(*types.Struct)
	if !ok {
		return Term{}, false
	}
	f := st.Field(path[0])
	if len(path) == 1 {
		if ft, ok := x.W.Field(cur, f.Name()); ok && ft.Sort != v.Sort {
			v = x.coerce(v, ft.Sort)
			if v.Sort != ft.Sort {
				v = x.opaqueFrom(v, ft.Sort)
			}
		}
		return x.W.WithField(cur, f.Name(), v)
	}
	inner, ok := x.W.Field(cur, f.Name())
	if !ok {
		return Term{}, false
	}
	ni, ok := x.setFieldPath(inner, f.Type(), path[1:], v)
	if !ok {
		return Term{}, false
	}
	return x.W.WithField(cur, f.Name(), ni)
}

func (x *Exec) getFieldPath(cur Term, t types.Type, path []int) (Term, bool) {
	for _, idx := range path {
		st, ok := derefType(t).Underlying().(*types.Struct)
		if !ok {
			return Term{}, false
		}
		f := st.Field(idx)
		nt, ok := x.W.Field(cur, f.Name())
		if !ok {
			return Term{}, false
		}
		nt.GoT = f.Type()
		cur = nt
		t = f.Type()
	}
	return cur, true
}

// ---------------------------------------------------------------------
// loops

// fullyReadonlyCallee: callee known not to write through its receiver or any pointer/map parameter.
var fullyReadonlyCallee func(*types.Func) bool

// isLibraryStruct: named struct type declared outside the module (modelled as an opaque sort).
var modulePath string

func isLibraryStruct(t types.Type) bool {
	n, ok := t.(*types.Named)
	if !ok {
		return false
	}
	if _, isStruct := n.Underlying().(*types.Struct); !isStruct {
		return false
	}
	return n.Obj().Pkg() != nil && modulePath != "" && !strings.HasPrefix(n.Obj().Pkg().Path(), modulePath)
}

// readonlyCallee is installed by the driver: callee known not to write through receiver/pointer parameters.
var readonlyCallee func(*types.Func) bool

func assignedVars(info *types.Info, n ast.Node, closures map[types.Object]*ast.FuncLit) map[types.Object]bool {
	out := map[types.Object]bool{}
	var root func(e ast.Expr) types.Object
	root = func(e ast.Expr) types.Object {
		switch e := e.(type) {
		case *ast.Ident:
			if o := info.Uses[e]; o != nil {
				return o
			}
			return info.Defs[e]
		case *ast.ParenExpr:
			return root(e.X)
		case *ast.StarExpr:
			return root(e.X)
		case *ast.SelectorExpr:
			if sel, ok := info.Selections[e]; ok && sel.Kind() == types.FieldVal {
				return root(e.X)
			}
			return nil
		case *ast.IndexExpr:
			return root(e.X)
		case *ast.SliceExpr:
			return root(e.X)
		case *ast.UnaryExpr:
			if e.Op == token.AND {
				return root(e.X)
			}
		case *ast.CallExpr:
			return nil
		}
		return nil
	}
	mark := func(e ast.Expr) {
		if o := root(e); o != nil {
			out[o] = true
		}
	}
	var visit func(n ast.Node)
	visitedClosure := map[*ast.FuncLit]bool{} // a closure may call itself (var f func(); f = func(){ f() })
	visit = func(n ast.Node) {
		ast.Inspect(n, func(n ast.Node) bool {
			switch s := n.(type) {
			case *ast.AssignStmt:
				for _, l := range s.Lhs {
					mark(l)
				}
			case *ast.IncDecStmt:
				mark(s.X)
			case *ast.RangeStmt:
				if s.Key != nil {
					mark(s.Key)
				}
				if s.Value != nil {
					mark(s.Value)
				}
			case *ast.CallExpr:
				// pointer-receiver method calls and &x / pointer / slice-writing arguments may modify
				if se, ok := s.Fun.(*ast.SelectorExpr); ok {
					if sel, ok := info.Selections[se]; ok && sel.Kind() == types.MethodVal {
						if sig, ok := sel.Obj().Type().(*types.Signature); ok && sig.Recv() != nil {
							if _, isPtr := sig.Recv().Type().(*types.Pointer); isPtr {
								if fn, isFn := sel.Obj().(*types.Func); !isFn || readonlyCallee == nil || !readonlyCallee(fn) {
									mark(se.X)
								}
							}
						}
					}
				}
				if id, ok := s.Fun.(*ast.Ident); ok {
					if id.Name == "copy" && len(s.Args) == 2 {
						mark(s.Args[0])
					}
					if o := info.Uses[id]; o != nil {
						if fl, ok := closures[o]; ok && !visitedClosure[fl] {
							visitedClosure[fl] = true
							visit(fl.Body)
						}
					}
				}
				// calls of function VALUES are modelled as pure uninterpreted functions of their arguments
				isFuncValue := false
				if id, ok := ast.Unparen(s.Fun).(*ast.Ident); ok {
					if _, isVar := info.Uses[id].(*types.Var); isVar {
						isFuncValue = true
					}
					if _, isBuiltin := info.Uses[id].(*types.Builtin); isBuiltin {
						isFuncValue = true // builtins never write through pointer arguments (copy/delete are handled above)
					}
				}
				if tv, isT := info.Types[s.Fun]; isT && tv.IsType() {
					isFuncValue = true // conversion
				}
				// callee known (by its contract flag or the frame analysis) not to write through pointers
				roCallee := false
				var calleeFn *types.Func
				switch f := ast.Unparen(s.Fun).(type) {
				case *ast.Ident:
					calleeFn, _ = info.Uses[f].(*types.Func)
				case *ast.SelectorExpr:
					if sel, ok := info.Selections[f]; ok {
						calleeFn, _ = sel.Obj().(*types.Func)
					} else {
						calleeFn, _ = info.Uses[f.Sel].(*types.Func)
					}
				}
				if calleeFn != nil && fullyReadonlyCallee != nil && fullyReadonlyCallee(calleeFn) {
					roCallee = true
				}
				for _, a := range s.Args {
					if isFuncValue || roCallee {
						break
					}
					if u, ok := a.(*ast.UnaryExpr); ok && u.Op == token.AND {
						mark(u.X)
					} else if t := info.TypeOf(a); t != nil {
						if pt, isPtr := t.Underlying().(*types.Pointer); isPtr {
							if isLibraryStruct(pt.Elem()) {
								continue // opaque library value: not part of the modelled state (A9)
							}
							mark(a)
						}
					}
				}
			}
			return true
		})
	}
	visit(n)
	return out
}

// writtenThrough: is there an assignment whose target is a field/element/deref reached THROUGH variable v
// (as opposed to rebinding v itself), or a pointer-receiver method call on it?
func writtenThrough(info *types.Info, body ast.Node, v types.Object) bool {
	found := false
	var rootIs func(e ast.Expr) bool
	rootIs = func(e ast.Expr) bool {
		switch e := e.(type) {
		case *ast.Ident:
			return info.Uses[e] == v
		case *ast.ParenExpr:
			return rootIs(e.X)
		case *ast.StarExpr:
			return rootIs(e.X)
		case *ast.SelectorExpr:
			if sel, ok := info.Selections[e]; ok && sel.Kind() == types.FieldVal {
				return rootIs(e.X)
			}
		case *ast.IndexExpr:
			return rootIs(e.X)
		}
		return false
	}
	ast.Inspect(body, func(n ast.Node) bool {
		switch s := n.(type) {
		case *ast.AssignStmt:
			for _, l := range s.Lhs {
				if _, isId := l.(*ast.Ident); !isId && rootIs(l) {
					found = true
				}
			}
		case *ast.IncDecStmt:
			if _, isId := s.X.(*ast.Ident); !isId && rootIs(s.X) {
				found = true
			}
		case *ast.CallExpr:
			if se, ok := s.Fun.(*ast.SelectorExpr); ok {
				if sel, ok := info.Selections[se]; ok && sel.Kind() == types.MethodVal && rootIs(se.X) {
					if sig, ok := sel.Obj().Type().(*types.Signature); ok && sig.Recv() != nil {
						if _, isPtr := sig.Recv().Type().(*types.Pointer); isPtr {
							if fn, isFn := sel.Obj().(*types.Func); !isFn || readonlyCallee == nil || !readonlyCallee(fn) {
								found = true
							}
						}
					}
				}
			}
		}
		return !found
	})
	return found
}

// aliasRoots: variables modified through aliases (p := &s[i]; p.f = v modifies s).
func (x *Exec) aliasRoots(info *types.Info, body ast.Node, mod map[types.Object]bool) {
	ast.Inspect(body, func(n ast.Node) bool {
		as, ok := n.(*ast.AssignStmt)
		if !ok || as.Tok != token.DEFINE || len(as.Lhs) != len(as.Rhs) {
			return true
		}
		for i, r := range as.Rhs {
			u, isAddr := ast.Unparen(r).(*ast.UnaryExpr)
			if !isAddr || u.Op != token.AND {
				continue
			}
			id, isId := as.Lhs[i].(*ast.Ident)
			if !isId {
				continue
			}
			if obj := info.Defs[id]; obj != nil && writtenThrough(info, body, obj) {
				for o := range assignedVars(info, &ast.AssignStmt{Lhs: []ast.Expr{u.X}, Tok: token.ASSIGN, Rhs: []ast.Expr{u.X}}, nil) {
					mod[o] = true
				}
			}
		}
		return true
	})
}

func (x *Exec) loopContract(n ast.Node) (*LoopContract, int) {
	ord, ok := x.cx.loopOrd[n]
	if !ok {
		return nil, -1
	}
	if x.cx.fc == nil {
		return nil, ord
	}
	lc := x.cx.fc.Loops[ord]
	if lc != nil && lc.Exhaustive && x.quiet == 0 && !x.termMode {
		if x.cx.exhaustiveDone == nil {
			x.cx.exhaustiveDone = map[int]bool{}
		}
		if !x.cx.exhaustiveDone[ord] {
			x.cx.exhaustiveDone[ord] = true
			o := x.W.Oblige(x.oblName(fmt.Sprintf("loop%d/exhaustive", ord), ""), "frame", True, True)
			o.Preset, o.Solver, o.Result = true, "loop-scan", "unsat"
			if exits := loopEarlyExits(x.cx.fi, n); len(exits) > 0 {
				o.Result = "sat"
				o.Output = "the loop can stop before it has visited every element: " + strings.Join(exits, ", ")
			}
		}
	}
	return lc, ord
}

// loopEarlyExits lists the statements inside the body of loop n that leave the loop before its natural end:
// return, goto, break (unlabelled ones that belong to this loop, labelled ones that name it or an outer statement).
func loopEarlyExits(fi *FuncInfo, n ast.Node) []string {
	var body *ast.BlockStmt
	switch l := n.(type) {
	case *ast.ForStmt:
		body = l.Body
	case *ast.RangeStmt:
		body = l.Body
	}
	if body == nil {
		return nil
	}
	var out []string
	pos := func(p token.Pos) string {
		ps := fi.Pkg.Fset.Position(p)
		return fmt.Sprintf("%s:%d", relFile(ps.Filename), ps.Line)
	}
	var walk func(node ast.Node, breakable bool)
	walk = func(node ast.Node, inner bool) {
		ast.Inspect(node, func(c ast.Node) bool {
			if c == nil || c == node {
				return true
			}
			switch s := c.(type) {
			case *ast.FuncLit:
				return false
			case *ast.ReturnStmt:
				out = append(out, "return at "+pos(s.Pos()))
			case *ast.BranchStmt:
				switch s.Tok {
				case token.GOTO:
					out = append(out, "goto at "+pos(s.Pos()))
				case token.BREAK:
					if s.Label != nil || !inner {
						out = append(out, "break at "+pos(s.Pos()))
					}
				}
			case *ast.ForStmt, *ast.RangeStmt, *ast.SwitchStmt, *ast.TypeSwitchStmt, *ast.SelectStmt:
				// unlabelled breaks below belong to this inner statement
				walk(c, true)
				return false
			}
			return true
		})
	}
	walk(body, false)
	return out
}

// scopeAt builds a contract scope resolving Go variable names at position pos.
func (x *Exec) scopeAt(env *Env, pos token.Pos) *Scope {
	cx := x.cx
	sc := &Scope{x: x, pkg: cx.fi.Pkg.Name, locals: map[string]Term{}}
	for k, v := range cx.ghosts {
		sc.locals[k] = v
	}
	file := cx.fi.Pkg.Types.Scope().Innermost(pos)
	hidden := append([]types.Object{}, cx.hidden...)
	sc.resolve = func(name string) (Term, bool) {
		for k, cv := range cx.counters {
			if cx.fc != nil && k < len(cx.fc.Counters) && cx.fc.Counters[k].Name == name {
				v, ok := env.vars[cv]
				return v, ok
			}
		}
		if len(name) == 3 && strings.HasPrefix(name, "$i") && name[2] >= '2' && name[2] <= '9' && len(hidden) > 0 {
			// $i2: the hidden index of the enclosing range loop (2nd innermost), $i3 the next one out, ...
			want := int(name[2] - '0')
			for k := len(hidden) - 1; k >= 0; k-- {
				if hidden[k].Name() == "$i" {
					want--
					if want == 0 {
						v, ok := env.vars[hidden[k]]
						return v, ok
					}
				}
			}
		}
		if (name == "$i" || name == "$visited") && len(hidden) > 0 {
			for k := len(hidden) - 1; k >= 0; k-- {
				if hidden[k].Name() == name {
					v, ok := env.vars[hidden[k]]
					return v, ok
				}
			}
		}
		if file == nil {
			return Term{}, false
		}
		inner := file.Innermost(pos)
		if inner == nil {
			inner = file
		}
		_, obj := inner.LookupParent(name, pos)
		if obj == nil {
			return Term{}, false
		}
		if v, ok := env.vars[obj]; ok {
			if v.GoT == nil {
				v.GoT = obj.Type()
			}
			return v, true
		}
		if c, ok := obj.(*types.Const); ok {
			if t, ok := ConstTerm(x.W, c.Val(), x.W.SortOf(c.Type())); ok {
				t.GoT = c.Type()
				return t, true
			}
		}
		return Term{}, false
	}
	if cx.oldEnv != nil {
		oe := cx.oldEnv
		sc.resolveOld = func(name string) (Term, bool) {
			inner := file.Innermost(pos)
			if inner == nil {
				inner = file
			}
			_, obj := inner.LookupParent(name, pos)
			if obj == nil {
				return Term{}, false
			}
			v, ok := oe.vars[obj]
			if ok && v.GoT == nil {
				v.GoT = obj.Type()
			}
			return v, ok
		}
	}
	return sc
}

func clauseName(c Clause, i int) string {
	if c.Label != "" {
		return c.Label
	}
	return fmt.Sprintf("%d", i+1)
}

func (x *Exec) execLoopCommon(node ast.Node, bodyPos token.Pos, env *Env, label string,
	modified map[types.Object]bool, extraInv func(env *Env) Term,
	guard func(env *Env) Term, body func(env *Env) *Env, post func(env *Env) *Env) *Env {

	lc, ord := x.loopContract(node)
	if x.termMode {
		unsupported("loop in term mode")
	}
	if x.unroll > 0 {
		// counterexample-search mode: bounded unrolling from the real entry state instead of invariants
		_ = lc
		var exits []*Env
		cur := env
		for it := 0; it < x.unroll && cur != nil; it++ {
			fr := &frame{kind: "loop", label: label}
			x.cx.frames = append(x.cx.frames, fr)
			g := guard(cur)
			exits = append(exits, x.branch(cur, Not(g)))
			out := body(x.branch(cur, g))
			end := x.merge(append([]*Env{out}, fr.continues...))
			if end != nil && post != nil {
				end = post(end)
			}
			x.cx.frames = x.cx.frames[:len(x.cx.frames)-1]
			exits = append(exits, fr.breaks...)
			cur = end
		}
		if cur != nil {
			// unwinding assumption: inputs needing more iterations are excluded from the search
			g := guard(cur)
			exits = append(exits, x.branch(cur, Not(g)))
		}
		return x.merge(exits)
	}
	tag := fmt.Sprintf("loop%d", ord)
	entryEnv := env.clone()
	loopScope := func(e *Env) *Scope {
		sc := x.scopeAt(e, bodyPos)
		sc.entry = x.scopeAt(entryEnv, bodyPos)
		return sc
	}
	evalInvs := func(e *Env, phase string, assertIt bool) {
		if extraInv != nil {
			inv := extraInv(e)
			if assertIt {
				x.assert(e, tag+"/auto/"+phase, "", inv)
			} else {
				x.assume(e, inv)
			}
		}
		if lc == nil {
			return
		}
		sc := loopScope(e)
		for i, c := range lc.Invariants {
			t := sc.EvalBool(c.Expr)
			if assertIt {
				x.assert(e, tag+"/inv:"+clauseName(c, i)+"/"+phase, "", t)
			} else {
				x.assume(e, t)
			}
		}
	}
	// 1. invariant on entry
	evalInvs(env, "entry", true)
	// 2. havoc modified variables
	head := env.clone()
	var mods []types.Object
	for o := range modified {
		mods = append(mods, o)
	}
	sort.Slice(mods, func(i, j int) bool { return mods[i].Pos() < mods[j].Pos() })
	for _, o := range mods {
		if cur, ok := head.vars[o]; ok {
			nv := x.fresh(o.Name(), o.Type())
			if nv.Sort != cur.Sort {
				nv = x.W.Fresh(o.Name(), cur.Sort)
				nv.GoT = cur.GoT
			}
			head.vars[o] = nv
		}
	}
	// 3. assume invariant
	evalInvs(head, "", false)
	var variant0 Term
	if lc != nil && lc.Decreases != nil {
		variant0 = loopScope(head).Eval(lc.Decreases.Expr)
	} else if _, isFor := node.(*ast.ForStmt); isFor && x.cx.fc != nil && x.quiet == 0 && needsTermination(x.cx.fc) {
		// C02 units: a for-loop without a variant is an undischarged termination obligation
		x.W.Oblige(x.oblName(tag+"/variant:missing", ""), "variant", env.pc, False)
	}
	// 4. guard
	fr := &frame{kind: "loop", label: label}
	x.cx.frames = append(x.cx.frames, fr)
	genv := head.clone()
	g := guard(genv)
	bodyEnv := x.branch(genv, g)
	exitEnv := x.branch(genv, Not(g))
	// cover: body reachable
	if x.quiet == 0 && g.S != "true" {
		o := x.W.Oblige(x.oblName(tag+"/cover:body", ""), "cover", bodyEnv.pc, False)
		o.Expect = "sat"
	}
	if lc != nil {
		hsc := loopScope(bodyEnv)
		for i, c := range lc.Hints {
			x.assert(bodyEnv, tag+"/hint:"+clauseName(c, i), "", hsc.EvalBool(c.Expr))
		}
	}
	iterStart := bodyEnv.clone()
	nsplits := len(x.cx.splits)
	if lc != nil {
		ssc := loopScope(bodyEnv)
		for _, c := range lc.Splits {
			x.cx.splits = append(x.cx.splits, x.named("split", ssc.EvalBool(c.Expr)))
		}
	}
	out := body(bodyEnv)
	conts := append([]*Env{out}, fr.continues...)
	end := x.merge(conts)
	if end != nil && post != nil {
		end = post(end)
	}
	if end != nil && lc != nil {
		endPos := bodyPos
		switch nd := node.(type) {
		case *ast.ForStmt:
			endPos = nd.Body.Rbrace
		case *ast.RangeStmt:
			endPos = nd.Body.Rbrace
		}
		for i, c := range lc.Steps {
			// evaluated at the end of the body: variables declared at the top level of the body are in scope
			sc := x.scopeAt(end, endPos)
			sc.entry = x.scopeAt(entryEnv, bodyPos)
			sc.prev = x.scopeAt(iterStart, bodyPos)
			x.assert(end, tag+"/step:"+clauseName(c, i), "", sc.EvalBool(c.Expr))
		}
	}
	if end != nil {
		evalInvs(end, "preserved", true)
		if variant0.S != "" {
			v1 := loopScope(end).Eval(lc.Decreases.Expr)
			x.assert(end, tag+"/variant", "", And(Cmp(">=", variant0, IntLit(0)), Cmp("<", v1, variant0)))
		}
	}
	x.cx.splits = x.cx.splits[:nsplits]
	x.cx.frames = x.cx.frames[:len(x.cx.frames)-1]
	exits := append([]*Env{exitEnv}, fr.breaks...)
	return x.merge(exits)
}

func (x *Exec) execFor(s *ast.ForStmt, env *Env, label string) *Env {
	if s.Init != nil {
		env = x.execStmt(s.Init, env, "")
		if env == nil {
			return nil
		}
	}
	info := x.cx.info
	mod := assignedVars(info, s.Body, x.cx.closures)
	x.aliasRoots(info, s.Body, mod)
	x.sharedWriteMods(s.Body, env, mod)
	x.counterMods(s.Body, mod)
	x.counterMods(s.Body, mod)
	if s.Post != nil {
		for o := range assignedVars(info, s.Post, x.cx.closures) {
			mod[o] = true
		}
	}
	if s.Cond != nil {
		for o := range assignedVars(info, s.Cond, x.cx.closures) {
			mod[o] = true
		}
	}
	// automatic invariant for counting loops: for i := a; i < n; i++ with i not assigned in body: i >= a0
	var auto func(env *Env) Term
	if as, ok := s.Init.(*ast.AssignStmt); ok && len(as.Lhs) == 1 && s.Post != nil {
		if id, ok := as.Lhs[0].(*ast.Ident); ok {
			obj := info.Defs[id]
			if inc, ok := s.Post.(*ast.IncDecStmt); ok && obj != nil && !assignedVars(info, s.Body, x.cx.closures)[obj] {
				if pid, ok := inc.X.(*ast.Ident); ok && info.Uses[pid] == obj {
					start := env.vars[obj]
					if inc.Tok == token.INC {
						auto = func(e *Env) Term { return Cmp(">=", e.vars[obj], start) }
					} else {
						auto = func(e *Env) Term { return Cmp("<=", e.vars[obj], start) }
					}
				}
			}
		}
	}
	return x.execLoopCommon(s, s.Body.Lbrace, env, label, mod, auto,
		func(e *Env) Term {
			if s.Cond == nil {
				return True
			}
			return x.eval(s.Cond, e)
		},
		func(e *Env) *Env { return x.execBlock(s.Body.List, e) },
		func(e *Env) *Env {
			if s.Post == nil {
				return e
			}
			return x.execStmt(s.Post, e, "")
		})
}

func (x *Exec) execRange(s *ast.RangeStmt, env *Env, label string) *Env {
	info := x.cx.info
	xt := info.TypeOf(s.X)
	coll := x.eval(s.X, env)
	mod := assignedVars(info, s.Body, x.cx.closures)
	x.aliasRoots(info, s.Body, mod)
	x.sharedWriteMods(s.Body, env, mod)
	x.counterMods(s.Body, mod)
	var keyObj, valObj types.Object
	getObj := func(e ast.Expr) types.Object {
		if e == nil {
			return nil
		}
		id, ok := e.(*ast.Ident)
		if !ok {
			unsupported("range with non-identifier key/value")
		}
		if id.Name == "_" {
			return nil
		}
		if o := info.Defs[id]; o != nil {
			return o
		}
		return info.Uses[id]
	}
	keyObj, valObj = getObj(s.Key), getObj(s.Value)
	bodyAssignsVal := valObj != nil && mod[valObj]
	switch u := derefType(xt).Underlying().(type) {
	case *types.Slice, *types.Array:
		var n Term
		var at func(i Term) Term
		var et types.Type
		if sl, ok := u.(*types.Slice); ok {
			n = x.W.SeqLen(coll)
			at = func(i Term) Term { return x.W.SeqAt(coll, i) }
			et = sl.Elem()
		} else {
			arr := u.(*types.Array)
			n = IntLit(arr.Len())
			at = func(i Term) Term { return Select(coll, i) }
			et = arr.Elem()
		}
		// hidden index
		idx := types.NewVar(s.Pos(), x.cx.fi.Pkg.Types, "$i", types.Typ[types.Int])
		env.vars[idx] = IntLit(0)
		mod[idx] = true
		x.cx.hidden = append(x.cx.hidden, idx)
		defer func() { x.cx.hidden = x.cx.hidden[:len(x.cx.hidden)-1] }()
		if keyObj != nil {
			mod[keyObj] = true
			if _, ok := env.vars[keyObj]; !ok {
				env.vars[keyObj] = IntLit(0)
			}
		}
		if valObj != nil {
			mod[valObj] = true
			if _, ok := env.vars[valObj]; !ok {
				env.vars[valObj] = x.zero(valObj.Type())
			}
		}
		auto := func(e *Env) Term {
			return And(Cmp("<=", IntLit(0), e.vars[idx]), Cmp("<=", e.vars[idx], n))
		}
		// for _, p := range ptrs { p.f = v }: the element is a pointer, writes through the range variable mutate the
		// pointee, which is the slice element in the owned-box model: write the final value back into the slice.
		writeBack := false
		if valObj != nil {
			if _, isPtr := et.Underlying().(*types.Pointer); isPtr && bodyAssignsVal && isAddressable(s.X) {
				if _, isSl := u.(*types.Slice); isSl {
					writeBack = true
					for o := range assignedVars(info, &ast.AssignStmt{Lhs: []ast.Expr{s.X}, Tok: token.ASSIGN, Rhs: []ast.Expr{s.X}}, nil) {
						mod[o] = true
					}
				}
			}
		}
		return x.execLoopCommon(s, s.Body.Lbrace, env, label, mod, auto,
			func(e *Env) Term { return Cmp("<", e.vars[idx], n) },
			func(e *Env) *Env {
				i := e.vars[idx]
				if keyObj != nil {
					e.vars[keyObj] = i
				}
				var elem0 Term
				if valObj != nil {
					var v Term
					if writeBack {
						cur := x.eval(s.X, e)
						v = x.W.SeqAt(cur, i)
					} else {
						v = at(i)
					}
					v.GoT = et
					x.typeFacts(v, et, e.pc)
					e.vars[valObj] = v
					elem0 = v
				}
				out := x.execBlock(s.Body.List, e)
				if writeBack && out != nil {
					if nv := out.vars[valObj]; nv.S != elem0.S {
						cur := x.eval(s.X, out)
						nb := Store(x.W.SeqBase(cur), Arith("+", x.W.SeqOff(cur), i), nv)
						ns, _ := x.W.WithField(cur, "base", nb)
						ns.GoT = cur.GoT
						ns = x.seqUpdateFacts(ns, cur, i, nv)
						x.assign(s.X, ns, out)
					}
				}
				return out
			},
			func(e *Env) *Env {
				e.vars[idx] = Arith("+", e.vars[idx], IntLit(1))
				return e
			})
	case *types.Basic:
		if u.Info()&types.IsString != 0 {
			// for i, r := range str: i strictly increasing byte offsets; r abstract with ASCII axiom
			n := x.W.SeqLen(coll)
			idx := types.NewVar(s.Pos(), x.cx.fi.Pkg.Types, "$i", types.Typ[types.Int])
			env.vars[idx] = IntLit(0)
			mod[idx] = true
			x.cx.hidden = append(x.cx.hidden, idx)
			defer func() { x.cx.hidden = x.cx.hidden[:len(x.cx.hidden)-1] }()
			if keyObj != nil {
				mod[keyObj] = true
				if _, ok := env.vars[keyObj]; !ok {
					env.vars[keyObj] = IntLit(0)
				}
			}
			if valObj != nil {
				mod[valObj] = true
				if _, ok := env.vars[valObj]; !ok {
					env.vars[valObj] = IntLit(0)
				}
			}
			x.W.DeclareFun("runeAt", []Sort{coll.Sort, SInt}, SInt)
			x.W.DeclareFun("runeW", []Sort{coll.Sort, SInt}, SInt)
			auto := func(e *Env) Term {
				return And(Cmp("<=", IntLit(0), e.vars[idx]), Cmp("<=", e.vars[idx], n))
			}
			return x.execLoopCommon(s, s.Body.Lbrace, env, label, mod, auto,
				func(e *Env) Term { return Cmp("<", e.vars[idx], n) },
				func(e *Env) *Env {
					i := e.vars[idx]
					b := x.W.SeqAt(coll, i)
					r := T("(runeAt "+coll.S+" "+i.S+")", SInt)
					wd := T("(runeW "+coll.S+" "+i.S+")", SInt)
					x.assume(e, And(Cmp("<=", IntLit(0), b), Cmp("<=", b, IntLit(255)),
						Cmp(">=", wd, IntLit(1)), Cmp("<=", wd, IntLit(4)), Cmp("<=", Arith("+", i, wd), n),
						Cmp(">=", r, IntLit(0)), Cmp("<=", r, IntLit(0x10FFFF)),
						Implies(Cmp("<", b, IntLit(128)), And(Eq(r, b), Eq(wd, IntLit(1)))),
						Implies(Cmp(">=", b, IntLit(128)), Cmp(">=", r, IntLit(128)))))
					if keyObj != nil {
						e.vars[keyObj] = i
					}
					if valObj != nil {
						r.GoT = types.Typ[types.Rune]
						e.vars[valObj] = r
					}
					return x.execBlock(s.Body.List, e)
				},
				func(e *Env) *Env {
					i := e.vars[idx]
					e.vars[idx] = Arith("+", i, T("(runeW "+coll.S+" "+i.S+")", SInt))
					return e
				})
		}
	case *types.Map:
		// every present key is visited exactly once, in an arbitrary order: ghost set $visited of visited keys;
		// the loop ends when all present keys have been visited (Go semantics for a map that the body does not modify).
		if keyObj != nil {
			mod[keyObj] = true
			if _, ok := env.vars[keyObj]; !ok {
				env.vars[keyObj] = x.zero(keyObj.Type())
			}
		}
		if valObj != nil {
			mod[valObj] = true
			if _, ok := env.vars[valObj]; !ok {
				env.vars[valObj] = x.zero(valObj.Type())
			}
		}
		if strings.Contains(coll.S, "(ite ") {
			// e.g. ranging over m[k] of a map of maps: name the collection so that no if-then-else ends up in a trigger
			got := coll.GoT
			coll = x.named("rangedmap", coll)
			coll.GoT = got
		}
		dom, _ := x.W.Field(coll, "dom")
		val, _ := x.W.Field(coll, "val")
		ks := arrayKeySort(dom.Sort)
		vis := types.NewVar(s.Pos(), x.cx.fi.Pkg.Types, "$visited", types.NewMap(u.Key(), types.Typ[types.Bool]))
		visSort := ArraySort(ks, SBool)
		env.vars[vis] = Term{S: ConstArray(visSort, False).S, Sort: visSort}
		mod[vis] = true
		x.cx.hidden = append(x.cx.hidden, vis)
		defer func() { x.cx.hidden = x.cx.hidden[:len(x.cx.hidden)-1] }()
		x.W.Note("range over map: every present key visited once in arbitrary order (ghost $visited); the body must not add or delete keys of the ranged map")
		auto := func(e *Env) Term {
			x.W.nfresh++
			q := fmt.Sprintf("k!q%d", x.W.nfresh)
			qk := T(q, ks)
			return T(fmt.Sprintf("(forall ((%s %s)) (! (=> %s %s) :pattern (%s)))", q, ks, Select(e.vars[vis], qk).S, Select(dom, qk).S, Select(e.vars[vis], qk).S), SBool)
		}
		return x.execLoopCommon(s, s.Body.Lbrace, env, label, mod, auto,
			func(e *Env) Term {
				more := x.W.Fresh("more", SBool)
				x.W.nfresh++
				q := fmt.Sprintf("k!q%d", x.W.nfresh)
				qk := T(q, ks)
				// not more  <=>  every present key has been visited
				allVisited := T(fmt.Sprintf("(forall ((%s %s)) (! (=> %s %s) :pattern (%s)))", q, ks, Select(dom, qk).S, Select(e.vars[vis], qk).S, Select(dom, qk).S), SBool)
				x.W.AddFact(e.pc, Eq(Not(more), allVisited))
				return more
			},
			func(e *Env) *Env {
				var k Term
				if keyObj != nil {
					k = x.fresh(keyObj.Name(), keyObj.Type())
				} else {
					k = x.W.Fresh("k", ks)
				}
				x.assume(e, And(Select(dom, k), Not(Select(e.vars[vis], k))))
				if keyObj != nil {
					e.vars[keyObj] = k
				}
				if valObj != nil {
					v := Select(val, k)
					v.GoT = valObj.Type()
					x.typeFacts(v, valObj.Type(), e.pc)
					e.vars[valObj] = v
				}
				e.vars[vis] = Term{S: Store(e.vars[vis], k, True).S, Sort: visSort}
				return x.execBlock(s.Body.List, e)
			}, nil)
	}
	unsupported("range over %s", xt)
	return nil
}

func arrayKeySort(s Sort) Sort { k, _ := arrayKV(s); return k }

func (x *Exec) execSwitch(s *ast.SwitchStmt, env *Env, label string) *Env {
	if s.Init != nil {
		env = x.execStmt(s.Init, env, "")
		if env == nil {
			return nil
		}
	}
	var tag Term
	hasTag := s.Tag != nil
	if hasTag {
		tag = x.eval(s.Tag, env)
	}
	fr := &frame{kind: "switch", label: label}
	x.cx.frames = append(x.cx.frames, fr)
	var outs []*Env
	rest := env
	var deflt *ast.CaseClause
	for _, c := range s.Body.List {
		cc := c.(*ast.CaseClause)
		if cc.List == nil {
			deflt = cc
			continue
		}
		if rest == nil {
			break
		}
		var conds []Term
		for _, e := range cc.List {
			if hasTag {
				v := x.evalAs(e, rest, x.cx.info.TypeOf(s.Tag))
				conds = append(conds, x.eqTerms(tag, v))
			} else {
				conds = append(conds, x.eval(e, rest))
			}
		}
		c := Or(conds...)
		taken := x.branch(rest, c)
		for _, st := range cc.Body {
			if b, ok := st.(*ast.BranchStmt); ok && b.Tok == token.FALLTHROUGH {
				unsupported("fallthrough")
			}
		}
		outs = append(outs, x.execBlock(cc.Body, taken))
		rest = x.branch(rest, Not(c))
	}
	if deflt != nil && rest != nil {
		outs = append(outs, x.execBlock(deflt.Body, rest))
	} else {
		outs = append(outs, rest)
	}
	x.cx.frames = x.cx.frames[:len(x.cx.frames)-1]
	outs = append(outs, fr.breaks...)
	return x.merge(outs)
}

func (x *Exec) execTypeSwitch(s *ast.TypeSwitchStmt, env *Env, label string) *Env {
	if s.Init != nil {
		env = x.execStmt(s.Init, env, "")
	}
	// evaluate the subject for its side effects
	var subj ast.Expr
	switch a := s.Assign.(type) {
	case *ast.AssignStmt:
		subj = a.Rhs[0].(*ast.TypeAssertExpr).X
	case *ast.ExprStmt:
		subj = a.X.(*ast.TypeAssertExpr).X
	}
	sv := x.eval(subj, env)
	x.W.Note("type switch modelled with uninterpreted dynamic-type tests")
	fr := &frame{kind: "switch", label: label}
	x.cx.frames = append(x.cx.frames, fr)
	var outs []*Env
	rest := env
	var deflt *ast.CaseClause
	for _, c := range s.Body.List {
		cc := c.(*ast.CaseClause)
		if cc.List == nil {
			deflt = cc
			continue
		}
		var conds []Term
		for _, te := range cc.List {
			tt := x.cx.info.TypeOf(te)
			conds = append(conds, x.dynTypeIs(sv, tt))
		}
		cond := Or(conds...)
		taken := x.branch(rest, cond)
		if obj := x.cx.info.Implicits[cc]; obj != nil {
			if len(cc.List) == 1 {
				taken.vars[obj] = x.dynValue(sv, obj.Type())
			} else {
				taken.vars[obj] = sv
			}
		}
		outs = append(outs, x.execBlock(cc.Body, taken))
		rest = x.branch(rest, Not(cond))
	}
	if deflt != nil {
		if obj := x.cx.info.Implicits[deflt]; obj != nil {
			rest.vars[obj] = sv
		}
		outs = append(outs, x.execBlock(deflt.Body, rest))
	} else {
		outs = append(outs, rest)
	}
	x.cx.frames = x.cx.frames[:len(x.cx.frames)-1]
	outs = append(outs, fr.breaks...)
	return x.merge(outs)
}

// dynTypeIs: uninterpreted predicate "dynamic type of v is t" (deterministic in v).
func (x *Exec) dynTypeIs(v Term, t types.Type) Term {
	if t == nil || isUntypedNil(t) {
		name := "dyn_isnil_" + sanitize(string(v.Sort))
		x.W.DeclareFun(name, []Sort{v.Sort}, SBool)
		return T("("+name+" "+v.S+")", SBool)
	}
	name := "dyn_is_" + sanitize(types.TypeString(t, nil)) + "_" + sanitize(string(v.Sort))
	if !x.W.constSeen[name] {
		x.W.DeclareFun(name, []Sort{v.Sort}, SBool)
		if _, isIface := t.Underlying().(*types.Interface); !isIface {
			// a value has at most one concrete dynamic type; the nil interface has none
			key := string(v.Sort)
			if x.W.dynTests == nil {
				x.W.dynTests = map[string][]string{}
			}
			for _, prev := range x.W.dynTests[key] {
				x.W.Facts = append(x.W.Facts, fmt.Sprintf("(forall ((v %s)) (! (not (and (%s v) (%s v))) :pattern ((%s v)) :pattern ((%s v))))", v.Sort, prev, name, prev, name))
			}
			x.W.dynTests[key] = append(x.W.dynTests[key], name)
			if v.GoT != nil {
				if _, vi := v.GoT.Underlying().(*types.Interface); vi && x.noFacts == 0 {
					z := x.zero(v.GoT)
					if z.Sort == v.Sort {
						x.W.Facts = append(x.W.Facts, "(not ("+name+" "+z.S+"))")
					}
				}
			}
		}
	}
	return T("("+name+" "+v.S+")", SBool)
}

func (x *Exec) dynValue(v Term, t types.Type) Term {
	so := x.W.SortOf(t)
	if so == v.Sort {
		r := v
		r.GoT = t
		return r
	}
	name := "dyn_val_" + sanitize(types.TypeString(t, nil)) + "_" + sanitize(string(v.Sort))
	x.W.DeclareFun(name, []Sort{v.Sort}, so)
	r := T("("+name+" "+v.S+")", so)
	r.GoT = t
	if !x.termMode {
		x.typeFacts(r, t, True)
	}
	return r
}

func isUntypedNil(t types.Type) bool {
	b, ok := t.(*types.Basic)
	return ok && b.Kind() == types.UntypedNil
}

// needsTermination: units claimed for the no-hang property must give a variant for every for-loop.
func needsTermination(fc *FuncContract) bool {
	for _, p := range fc.Props {
		if p == "C02" {
			return true
		}
	}
	return false
}

// returnOrdinal: 1-based position of a return statement among the return statements of the current function
// (source order, closures excluded).
func (x *Exec) returnOrdinal(r *ast.ReturnStmt) int {
	n, found := 0, 0
	ast.Inspect(x.cx.fi.Decl.Body, func(nd ast.Node) bool {
		if _, isLit := nd.(*ast.FuncLit); isLit {
			return false
		}
		if rs, ok := nd.(*ast.ReturnStmt); ok {
			n++
			if rs == r {
				found = n
			}
		}
		return found == 0
	})
	return found
}

// counterMods: a loop whose body contains a call counted by a ghost counter modifies that counter.
func (x *Exec) counterMods(body ast.Node, mod map[types.Object]bool) {
	if x.cx == nil || x.cx.fc == nil || len(x.cx.counters) == 0 || body == nil {
		return
	}
	ast.Inspect(body, func(n ast.Node) bool {
		call, ok := n.(*ast.CallExpr)
		if !ok {
			return true
		}
		fn := x.calleeOf(call)
		if fn == nil {
			return true
		}
		for k, c := range x.cx.fc.Counters {
			if k < len(x.cx.counters) && (c.Callee == fn.Name() || c.Callee == x.P.KeyOf(fn)) {
				mod[x.cx.counters[k]] = true
			}
		}
		return true
	})
}

// countCall: updates the ghost counters that count this call.
func (x *Exec) countCall(fn *types.Func, key string, call *ast.CallExpr, env *Env) {
	if x.cx == nil || x.cx.fc == nil || len(x.cx.counters) == 0 || x.quiet > 0 || x.termMode {
		return
	}
	for k, c := range x.cx.fc.Counters {
		if k >= len(x.cx.counters) || (c.Callee != fn.Name() && c.Callee != key) {
			continue
		}
		x.quiet++
		sc := x.scopeAt(env, call.Pos())
		for j, p := range c.Params {
			if j < len(call.Args) {
				sc.locals[p] = x.eval(call.Args[j], env)
			}
		}
		// $ord: the ordinal of this call among the calls of the same callee in the function body (1-based, source order)
		sc.locals["$ord"] = IntLit(int64(x.callOrdinal(call, fn)))
		cond := sc.EvalBool(c.When.Expr)
		x.quiet--
		cur := env.vars[x.cx.counters[k]]
		nv := x.named(c.Name, Ite(cond, Arith("+", cur, IntLit(1)), cur))
		nv.GoT = types.Typ[types.Int]
		env.vars[x.cx.counters[k]] = nv
	}
}
