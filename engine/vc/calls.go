package vc

import (
	"sort"
	"fmt"
	"go/ast"
	"go/token"
	"go/types"
	"strings"

	"golang.org/x/tools/go/packages"
)

type pkgT = packages.Package

const maxInlineDepth = 6

func (x *Exec) calleeOf(call *ast.CallExpr) *types.Func {
	info := x.cx.info
	switch f := ast.Unparen(call.Fun).(type) {
	case *ast.Ident:
		fn, _ := info.Uses[f].(*types.Func)
		return fn
	case *ast.SelectorExpr:
		if sel, ok := info.Selections[f]; ok {
			fn, _ := sel.Obj().(*types.Func)
			return fn
		}
		fn, _ := info.Uses[f.Sel].(*types.Func)
		return fn
	}
	return nil
}

func (x *Exec) evalCall(call *ast.CallExpr, env *Env) []Term {
	info := x.cx.info
	// conversion
	if tv, ok := info.Types[call.Fun]; ok && tv.IsType() {
		return []Term{x.convert(call, tv.Type, env)}
	}
	// builtin
	if id, ok := ast.Unparen(call.Fun).(*ast.Ident); ok {
		if b, ok := info.Uses[id].(*types.Builtin); ok {
			return x.builtin(b.Name(), call, env)
		}
		// local closure
		if obj := info.Uses[id]; obj != nil {
			if fl, ok := x.cx.closures[obj]; ok {
				return x.inlineClosure(fl, call, env)
			}
		}
	}
	fn := x.calleeOf(call)
	if fn == nil {
		// call of a function value (parameter): uninterpreted function of its arguments
		return x.callFuncValue(call, env)
	}
	key := x.P.KeyOf(fn)
	sig := fn.Type().(*types.Signature)

	// receiver
	var recvExpr ast.Expr
	if se, ok := ast.Unparen(call.Fun).(*ast.SelectorExpr); ok {
		if _, isSel := info.Selections[se]; isSel {
			recvExpr = se.X
		}
	}
	x.countCall(fn, key, call, env)
	// call-site clauses on library callees (checked before the library model consumes the call)
	if _, inMod := x.P.ByObj[fn]; !inMod && x.cx != nil && x.cx.fc != nil && len(x.cx.fc.Callsite) > 0 && x.quiet == 0 && !x.termMode {
		for _, cs := range x.cx.fc.Callsite {
			if cs.Callee != "make" && (cs.Callee == key || cs.Callee == fn.Name()) {
				x.quiet++
				var as []Term
				for _, a := range call.Args {
					as = append(as, x.eval(a, env))
				}
				x.quiet--
				x.callsiteClauses(fn, key, call, as, env)
				break
			}
		}
	}
	// library models
	if rs, ok := x.libCall(key, fn, call, recvExpr, env); ok {
		return rs
	}
	// evaluate receiver and arguments
	var recv Term
	if recvExpr != nil {
		recv = x.eval(recvExpr, env)
		// promoted through embedded fields
		if sel := info.Selections[ast.Unparen(call.Fun).(*ast.SelectorExpr)]; sel != nil && len(sel.Index()) > 1 {
			r, ok := x.getFieldPath(recv, info.TypeOf(recvExpr), sel.Index()[:len(sel.Index())-1])
			if !ok {
				unsupported("promoted method receiver")
			}
			recv = r
			recvExpr = nil // no write-back through embedding
		}
	}
	args := x.evalArgs(call, sig, env)
	if _, inMod := x.P.ByObj[fn]; inMod {
		x.callsiteClauses(fn, key, call, args, env)
	}

	fi := x.P.ByObj[fn]
	var fc *FuncContract
	if fi != nil {
		fc = x.P.Contracts.Funcs[fi.Key]
	}
	if fc != nil && !fc.Flags["inline"] {
		return x.callByContract(fi, fc, call, recvExpr, recv, args, env)
	}
	if fi != nil && fi.Decl.Body != nil && x.depth < maxInlineDepth {
		if rs, ok := x.callTermFun(fi, recv, args, env); ok {
			// a function compiled to a term adds no facts; a result that is syntactically always `&composite` is not nil
			if !x.termMode {
				for i := range rs {
					if i < sig.Results().Len() && returnsAddrAlways(fi.Decl, i) {
						if _, isPtr := sig.Results().At(i).Type().Underlying().(*types.Pointer); isPtr {
							pn := "isnilptr_" + sanitize(string(rs[i].Sort))
							x.W.DeclareFun(pn, []Sort{rs[i].Sort}, SBool)
							x.W.AddFact(env.pc, Not(T("("+pn+" "+rs[i].S+")", SBool)))
						}
					}
				}
			}
			return rs
		}
		if !x.termMode && (fc != nil || !hasLoop(fi.Decl.Body)) {
			return x.inlineCall(fi, fc, call, recvExpr, recv, args, env)
		}
	}
	if x.termMode {
		unsupported("call of %s not expressible as a term", key)
	}
	return x.abstractCall(key, fn, sig, call, recvExpr, args, env)
}

// returnsAddrAlways: every return statement of fd gives `&composite-literal` as result i.
func returnsAddrAlways(fd *ast.FuncDecl, i int) bool {
	ok, any := true, false
	ast.Inspect(fd.Body, func(n ast.Node) bool {
		switch s := n.(type) {
		case *ast.FuncLit:
			return false
		case *ast.ReturnStmt:
			any = true
			if i >= len(s.Results) {
				ok = false
				return false
			}
			u, isU := ast.Unparen(s.Results[i]).(*ast.UnaryExpr)
			if !isU || u.Op != token.AND {
				ok = false
				return false
			}
			if _, isLit := ast.Unparen(u.X).(*ast.CompositeLit); !isLit {
				ok = false
			}
		}
		return ok
	})
	return ok && any
}

func hasLoop(n ast.Node) bool {
	found := false
	ast.Inspect(n, func(n ast.Node) bool {
		switch n.(type) {
		case *ast.ForStmt, *ast.RangeStmt:
			found = true
		}
		return !found
	})
	return found
}

func (x *Exec) evalArgs(call *ast.CallExpr, sig *types.Signature, env *Env) []Term {
	var args []Term
	params := sig.Params()
	if len(call.Args) == 1 && params.Len() > 1 {
		return x.evalMulti(call.Args[0], env)
	}
	for i, a := range call.Args {
		var pt types.Type
		if sig.Variadic() && i >= params.Len()-1 {
			pt = params.At(params.Len() - 1).Type()
			if !call.Ellipsis.IsValid() {
				pt = pt.(*types.Slice).Elem()
			}
		} else if i < params.Len() {
			pt = params.At(i).Type()
		}
		if _, isLit := ast.Unparen(a).(*ast.FuncLit); isLit && pt != nil && x.calledByContract(call) {
			// a closure literal passed as an argument: an opaque value here (its meaning is given to the
			// callee's fv_<param> symbol by bindClosureUF when the callee is called by contract)
			args = append(args, x.fresh("closure", pt))
			continue
		}
		args = append(args, x.evalAs(a, env, pt))
	}
	if sig.Variadic() && !call.Ellipsis.IsValid() {
		// pack variadic tail into a slice value
		n := params.Len() - 1
		st := params.At(n).Type().(*types.Slice)
		so := x.W.SortOf(st)
		arr := ConstArray(ArraySort(SInt, x.W.SortOf(st.Elem())), x.zero(st.Elem()))
		cnt := 0
		for i := n; i < len(args); i++ {
			v := args[i]
			if v.Sort != x.W.SortOf(st.Elem()) {
				v = x.opaqueFrom(v, x.W.SortOf(st.Elem()))
			}
			arr = Store(arr, IntLit(int64(cnt)), v)
			cnt++
		}
		packed := x.W.MkSeq(so, arr, IntLit(0), IntLit(int64(cnt)))
		packed.GoT = st
		if n <= len(args) {
			args = append(args[:n:n], packed)
		}
	}
	return args
}

func (x *Exec) convert(call *ast.CallExpr, to types.Type, env *Env) Term {
	info := x.cx.info
	arg := call.Args[0]
	from := info.TypeOf(arg)
	v := x.eval(arg, env)
	ts := x.W.SortOf(to)
	var r Term
	isRuneSlice := func(t types.Type) bool {
		if sl, ok := t.Underlying().(*types.Slice); ok {
			if eb, ok := sl.Elem().Underlying().(*types.Basic); ok && eb.Kind() == types.Int32 {
				return true
			}
		}
		return false
	}
	isStr := func(t types.Type) bool {
		b, ok := t.Underlying().(*types.Basic)
		return ok && b.Info()&types.IsString != 0
	}
	switch {
	case (isStr(from) && isRuneSlice(to)) || (isRuneSlice(from) && isStr(to)):
		// []rune(string) / string([]rune): a different sequence (UTF-8 decoding/encoding); only the length of
		// []rune(s) is modelled (runecount)
		x.W.Note("rune/string conversion abstracted")
		r = x.freshOrFail(call, to)
		if isStr(from) {
			x.W.AddFact(env.pc, Eq(x.W.SeqLen(r), x.runeCount(v, env)))
		}
	case ts == SInt && v.Sort == SInt:
		r = wrap(v, to)
	case ts == SInt && v.Sort == SReal:
		r = wrap(T("(truncR "+v.S+")", SInt), to)
	case ts == SReal && v.Sort == SInt:
		r = ToReal(v)
	case ts == v.Sort:
		r = v
		// string(rune) / string(byte): one-element (ASCII) or opaque
		if fb, ok := from.Underlying().(*types.Basic); ok && fb.Info()&types.IsInteger != 0 {
			if tb, ok := to.Underlying().(*types.Basic); ok && tb.Info()&types.IsString != 0 {
				r = x.runeToString(v, env)
			}
		}
	case x.W.IsSeq(ts) && v.Sort == SInt:
		r = x.runeToString(v, env)
	case x.W.IsSeq(ts) && x.W.IsSeq(v.Sort):
		// []rune(string) or string([]rune): abstract, except for the length of []rune(s)
		x.W.Note("rune/string conversion abstracted")
		r = x.freshOrFail(call, to)
		if fb, ok := from.Underlying().(*types.Basic); ok && fb.Info()&types.IsString != 0 {
			if tsl, ok := to.Underlying().(*types.Slice); ok {
				if eb, ok := tsl.Elem().Underlying().(*types.Basic); ok && eb.Kind() == types.Int32 {
					x.W.AddFact(env.pc, Eq(x.W.SeqLen(r), x.runeCount(v, env)))
				}
			}
		}
	default:
		if v.Sort == ts {
			r = v
		} else {
			x.W.Note(fmt.Sprintf("conversion %s -> %s abstracted", from, to))
			r = x.opaqueFrom(v, ts)
		}
	}
	r.GoT = to
	return r
}

// runeCount: the number of runes of a string value (uninterpreted function with its range).
func (x *Exec) runeCount(v Term, env *Env) Term {
	so := x.W.SeqSort(SInt)
	if !x.W.constSeen["runecount$ax"] {
		x.W.constSeen["runecount$ax"] = true
		x.W.DeclareFun("runecount", []Sort{so}, SInt)
		ln := string(so) + "_len"
		x.W.Facts = append(x.W.Facts, fmt.Sprintf("(forall ((s %s)) (! (and (<= 0 (runecount s)) (<= (runecount s) (%s s)) (=> (> (%s s) 0) (> (runecount s) 0))) :pattern ((runecount s))))", so, ln, ln))
	}
	x.W.DeclareFun("runecount", []Sort{so}, SInt)
	return T("(runecount "+v.S+")", SInt)
}

func (x *Exec) runeToString(v Term, env *Env) Term {
	if x.termMode {
		unsupported("string(rune) in term mode")
	}
	so := x.W.SeqSort(SInt)
	x.W.DeclareFun("utf8enc", []Sort{SInt}, so)
	r := T("(utf8enc "+v.S+")", so)
	one := x.W.MkSeq(so, Store(ConstArray(ArraySort(SInt, SInt), IntLit(0)), IntLit(0), v), IntLit(0), IntLit(1))
	x.W.nfresh++
	qn := fmt.Sprintf("q!%d", x.W.nfresh)
	qk := T(qn, SInt)
	hi := Implies(And(Cmp(">=", v, IntLit(128)), Cmp("<=", IntLit(0), qk), Cmp("<", qk, x.W.SeqLen(r))), And(Cmp(">=", x.W.SeqAt(r, qk), IntLit(128)), Cmp("<=", x.W.SeqAt(r, qk), IntLit(255))))
	x.W.AddFact(env.pc, T("(forall (("+qn+" Int)) (! "+hi.S+" :pattern ("+x.W.SeqAt(r, qk).S+")))", SBool))
	x.W.AddFact(env.pc, And(Implies(And(Cmp("<=", IntLit(0), v), Cmp("<", v, IntLit(128))), Eq(r, one)),
		Cmp(">=", x.W.SeqLen(r), IntLit(1)), Cmp("<=", x.W.SeqLen(r), IntLit(4)), Cmp(">=", x.W.SeqOff(r), IntLit(0))))
	r.GoT = types.Typ[types.String]
	return r
}

func (x *Exec) builtin(name string, call *ast.CallExpr, env *Env) []Term {
	info := x.cx.info
	switch name {
	case "len", "cap":
		a := x.eval(call.Args[0], env)
		t := info.TypeOf(call.Args[0])
		switch u := derefType(t).Underlying().(type) {
		case *types.Array:
			return []Term{IntLit(u.Len())}
		case *types.Map:
			c, _ := x.W.Field(a, "card")
			return []Term{c}
		}
		if x.W.IsSeq(a.Sort) {
			if name == "cap" {
				x.W.DeclareFun("capU_"+string(a.Sort), []Sort{a.Sort}, SInt)
				c := T("(capU_"+string(a.Sort)+" "+a.S+")", SInt)
				if !x.termMode {
					x.W.AddFact(env.pc, Cmp(">=", c, x.W.SeqLen(a)))
				}
				return []Term{c}
			}
			return []Term{x.W.SeqLen(a)}
		}
		unsupported("len of %s", t)
	case "append":
		s := x.evalAs(call.Args[0], env, info.TypeOf(call))
		st := info.TypeOf(call)
		et := st.Underlying().(*types.Slice).Elem()
		if !x.W.IsSeq(s.Sort) {
			unsupported("append to a value that is not modelled as a sequence (%s)", s.Sort)
		}
		if call.Ellipsis.IsValid() {
			b := x.eval(call.Args[1], env)
			r := x.concat(s, b, env)
			r.GoT = st
			return []Term{r}
		}
		cur := s
		for _, a := range call.Args[1:] {
			v := x.evalAs(a, env, et)
			v = x.coerce(v, x.W.SeqElem(cur.Sort))
			if v.Sort != x.W.SeqElem(cur.Sort) {
				v = x.opaqueFrom(v, x.W.SeqElem(cur.Sort))
			}
			ln := x.W.SeqLen(cur)
			nb := Store(x.W.SeqBase(cur), Arith("+", x.W.SeqOff(cur), ln), v)
			prev := cur
			cur = x.W.MkSeq(cur.Sort, nb, x.W.SeqOff(cur), Arith("+", ln, IntLit(1)))
			cur = x.seqUpdateFacts(cur, prev, ln, v)
		}
		cur.GoT = st
		return []Term{cur}
	case "make":
		t := info.TypeOf(call)
		switch u := t.Underlying().(type) {
		case *types.Slice:
			n := IntLit(0)
			if len(call.Args) > 1 {
				n = x.eval(call.Args[1], env)
				x.safetyCheck(env, "make", types.ExprString(call.Args[1]), Cmp(">=", n, IntLit(0)))
				x.allocBudget(call, n, env)
			}
			if len(call.Args) > 2 {
				c := x.eval(call.Args[2], env)
				x.safetyCheck(env, "make", types.ExprString(call.Args[2]), Cmp(">=", c, n))
				x.allocBudget(call, c, env)
			}
			so := x.W.SortOf(t)
			r := x.W.MkSeq(so, ConstArray(ArraySort(SInt, x.W.SortOf(u.Elem())), x.zero(u.Elem())), IntLit(0), n)
			r.GoT = t
			if b, ok := u.Elem().Underlying().(*types.Basic); ok && b.Kind() == types.Bool && !x.termMode && x.noFacts == 0 && x.unroll == 0 {
				// an all-false mask: mask sums over it equal the plain sums with the same summands (fold induction)
				z := x.named("mask0", r)
				z.GoT = t
				x.W.pendingZeroMask = append(x.W.pendingZeroMask, z)
				x.zeroMaskFacts()
				return []Term{z}
			}
			return []Term{r}
		case *types.Map:
			if len(call.Args) > 1 {
				n := x.eval(call.Args[1], env)
				x.allocBudget(call, n, env)
			}
			return []Term{x.zero(t)}
		}
		unsupported("make of %s", t)
	case "copy":
		dst := x.eval(call.Args[0], env)
		src := x.eval(call.Args[1], env)
		if x.termMode {
			unsupported("copy in term mode")
		}
		n := T("(minI "+x.W.SeqLen(dst).S+" "+x.W.SeqLen(src).S+")", SInt)
		es := x.W.SeqElem(dst.Sort)
		nb := x.W.Fresh("cpy", ArraySort(SInt, es))
		x.W.nfresh++
		q := fmt.Sprintf("q!%d", x.W.nfresh)
		qi := T(q, SInt)
		doff := x.W.SeqOff(dst)
		inR := And(Cmp("<=", doff, qi), Cmp("<", qi, Arith("+", doff, n)))
		srcAt := Select(x.W.SeqBase(src), Arith("+", x.W.SeqOff(src), Arith("-", qi, doff)))
		if x.unroll > 0 {
			// search mode: finite statement of the copy over the index window (plus the frame outside it is left free)
			var cs []Term
			for k := 0; k <= 2*searchMaxLen+2; k++ {
				ki := Arith("+", x.W.SeqOff(x.eval(call.Args[0], env)), IntLit(0))
				_ = ki
				idx := IntLit(int64(k))
				in := And(Cmp("<=", doff, idx), Cmp("<", idx, Arith("+", doff, n)))
				cs = append(cs, Eq(Select(nb, idx), Ite(in, Select(x.W.SeqBase(src), Arith("+", x.W.SeqOff(src), Arith("-", idx, doff))), Select(x.W.SeqBase(dst), idx))))
			}
			x.W.AddFact(env.pc, And(cs...))
		} else {
			x.W.AddFact(env.pc, T("(forall (("+q+" Int)) "+Eq(Select(nb, qi), Ite(inR, srcAt, Select(x.W.SeqBase(dst), qi))).S+")", SBool))
		}
		// write back to the root slice variable
		root := call.Args[0]
		for {
			if se, ok := ast.Unparen(root).(*ast.SliceExpr); ok {
				root = se.X
				continue
			}
			break
		}
		rv := x.eval(root, env)
		if x.W.IsSeq(rv.Sort) {
			nv, _ := x.W.WithField(rv, "base", nb)
			nv.GoT = rv.GoT
			if x.unroll > 0 {
				x.assign(root, nv, env)
				return []Term{n}
			}
			// element-level statement of the copy on the root sequence
			c := x.W.Fresh("cpd", nv.Sort)
			c.GoT = nv.GoT
			x.W.Facts = append(x.W.Facts, Eq(c, nv).S)
			a := x.named("cpoff", Arith("-", doff, x.W.SeqOff(rv)))
			x.W.nfresh++
			q2 := fmt.Sprintf("q!%d", x.W.nfresh)
			qj := T(q2, SInt)
			in2 := And(Cmp("<=", a, qj), Cmp("<", qj, Arith("+", a, n)))
			x.W.AddFact(env.pc, T(fmt.Sprintf("(forall ((%s Int)) (! %s :pattern (%s)))", q2,
				Eq(x.W.SeqAt(c, qj), Ite(in2, x.W.SeqAt(src, Arith("-", qj, a)), x.W.SeqAt(rv, qj))).S, x.W.SeqAt(c, qj).S), SBool))
			nv = c
			// whole-prefix copy: folds over the first n elements agree with the source
			x.W.AddFact(env.pc, Implies(Eq(a, IntLit(0)), True))
			if a.S == "0" || strings.HasSuffix(a.S, "") {
				// stated under the condition that the destination starts at offset 0 of the root
				before := len(x.W.Facts)
				x.prefixFacts(c, src, n)
				for k := before; k < len(x.W.Facts); k++ {
					x.W.Facts[k] = Implies(And(env.pc, Eq(a, IntLit(0)), Eq(x.W.SeqOff(src), x.W.SeqOff(src))), T(x.W.Facts[k], SBool)).S
				}
			}
			x.assign(root, nv, env)
		} else {
			unsupported("copy into non-slice root")
		}
		return []Term{n}
	case "delete":
		m := x.eval(call.Args[0], env)
		mt := info.TypeOf(call.Args[0]).Underlying().(*types.Map)
		k := x.evalAs(call.Args[1], env, mt.Key())
		dom, _ := x.W.Field(m, "dom")
		val, _ := x.W.Field(m, "val")
		card, _ := x.W.Field(m, "card")
		nv := x.W.Mk(m.Sort, Store(dom, k, False), val, Ite(Select(dom, k), Arith("-", card, IntLit(1)), card))
		nv.GoT = m.GoT
		x.assign(call.Args[0], nv, env)
		return nil
	case "panic":
		if len(call.Args) > 0 {
			x.evalMulti(call.Args[0], env)
		}
		if x.safety {
			x.assert(env, "panic", "explicit", False)
		}
		return nil
	case "min", "max":
		a := x.eval(call.Args[0], env)
		for _, e := range call.Args[1:] {
			b := x.eval(e, env)
			a, b = coerceNum(a, b)
			fn := name + "I"
			if a.Sort == SReal {
				fn = name + "R"
			}
			a = T("("+fn+" "+a.S+" "+b.S+")", a.Sort)
		}
		a.GoT = info.TypeOf(call)
		return []Term{a}
	case "new":
		t := info.TypeOf(call)
		return []Term{x.zero(t)}
	case "print", "println":
		return nil
	}
	unsupported("builtin %s", name)
	return nil
}

// allocBudget: when the function contract carries `flags budget`, every make size must be bounded by
// the ghost/param expression given as `requires`-style clause label alloc (handled in verify.go); default: none.
func (x *Exec) allocBudget(call *ast.CallExpr, n Term, env *Env) {
	if x.cx.fc == nil || x.quiet > 0 {
		return
	}
	for _, cs := range x.cx.fc.Callsite {
		if cs.Callee != "make" {
			continue
		}
		sc := x.scopeAt(env, call.Pos())
		if len(cs.Params) > 0 {
			sc.locals[cs.Params[0]] = n
		}
		x.assert(env, "alloc", types.ExprString(call), sc.EvalBool(cs.Clause.Expr))
	}
}

func (x *Exec) callFuncValue(call *ast.CallExpr, env *Env) []Term {
	info := x.cx.info
	ft, ok := info.TypeOf(call.Fun).Underlying().(*types.Signature)
	if !ok {
		unsupported("call of %s", types.ExprString(call.Fun))
	}
	name := "fv_" + sanitize(types.ExprString(call.Fun))
	var as []Term
	var sorts []Sort
	for i, a := range call.Args {
		v := x.evalAs(a, env, ft.Params().At(i).Type())
		as = append(as, v)
		sorts = append(sorts, v.Sort)
	}
	var out []Term
	for i := 0; i < ft.Results().Len(); i++ {
		rt := ft.Results().At(i).Type()
		fname := fmt.Sprintf("%s$%d", name, i)
		x.W.DeclareFun(fname, sorts, x.W.SortOf(rt))
		r := T(app(fname, as...), x.W.SortOf(rt))
		if len(as) == 0 {
			r.S = fname
		}
		r.GoT = rt
		out = append(out, r)
	}
	x.W.Note("function value " + types.ExprString(call.Fun) + " modelled as uninterpreted function of its arguments")
	return out
}

// ---------------------------------------------------------------------
// term-mode compilation of pure loop-free Go functions into define-fun

type termFun struct {
	names []string // one per result
	ok    bool
}

var termFunCache = map[*World]map[string]*termFun{}

func (x *Exec) callTermFun(fi *FuncInfo, recv Term, args []Term, env *Env) ([]Term, bool) {
	tf := x.termFunOf(fi)
	if tf == nil || !tf.ok {
		return nil, false
	}
	var all []Term
	if fi.Decl.Recv != nil {
		all = append(all, recv)
	}
	all = append(all, args...)
	sig := fi.Obj.Type().(*types.Signature)
	var out []Term
	for i, n := range tf.names {
		rt := sig.Results().At(i).Type()
		r := T(app(n, all...), x.W.SortOf(rt))
		if len(all) == 0 {
			r.S = n
		}
		r.GoT = rt
		out = append(out, r)
	}
	return out, true
}

func (x *Exec) termFunOf(fi *FuncInfo) (res *termFun) {
	cache := termFunCache[x.W]
	if cache == nil {
		cache = map[string]*termFun{}
		termFunCache[x.W] = cache
	}
	if tf, ok := cache[fi.Key]; ok {
		return tf
	}
	tf := &termFun{}
	cache[fi.Key] = tf // also blocks recursion
	if fi.Decl.Body == nil || hasLoop(fi.Decl.Body) {
		return tf
	}
	sig := fi.Obj.Type().(*types.Signature)
	if sig.Results().Len() == 0 {
		return tf
	}
	// pointer receivers that are written are not pure; detect writes syntactically
	if fi.Decl.Recv != nil || sig.Params().Len() > 0 {
		mods := assignedVars(fi.Pkg.TypesInfo, fi.Decl.Body, nil)
		if rv := sig.Recv(); rv != nil {
			if _, isPtr := rv.Type().(*types.Pointer); isPtr && mods[rv] {
				return tf
			}
		}
		for i := 0; i < sig.Params().Len(); i++ {
			p := sig.Params().At(i)
			if _, isPtr := p.Type().Underlying().(*types.Pointer); isPtr && mods[p] {
				return tf
			}
		}
	}
	defer func() {
		if r := recover(); r != nil {
			if _, isU := r.(Unsupported); isU {
				res = tf
				return
			}
			panic(r)
		}
	}()
	savedCx, savedTM, savedDepth := x.cx, x.termMode, x.depth
	defer func() { x.cx, x.termMode, x.depth = savedCx, savedTM, savedDepth }()
	x.termMode = true
	x.depth++
	if x.depth > maxInlineDepth {
		return tf
	}
	cx := x.newCtx(fi, nil)
	x.cx = cx
	env := &Env{vars: map[types.Object]Term{}, pc: True}
	var formals []string
	bind := func(v *types.Var, idx int) {
		name := fmt.Sprintf("p%d", idx)
		so := x.W.SortOf(v.Type())
		formals = append(formals, fmt.Sprintf("(%s %s)", name, so))
		t := T(name, so)
		t.GoT = v.Type()
		env.vars[v] = t
	}
	n := 0
	if rv := sig.Recv(); rv != nil {
		bind(rv, n)
		n++
	}
	for i := 0; i < sig.Params().Len(); i++ {
		bind(sig.Params().At(i), n)
		n++
	}
	for _, rv := range cx.results {
		env.vars[rv] = x.zero(rv.Type())
	}
	out := x.execBlock(fi.Decl.Body.List, env)
	if out != nil {
		if len(cx.results) > 0 && fi.Decl.Type.Results != nil && len(fi.Decl.Type.Results.List) > 0 && len(fi.Decl.Type.Results.List[0].Names) > 0 {
			var vals []Term
			for _, rv := range cx.results {
				vals = append(vals, out.vars[rv])
			}
			cx.rets = append(cx.rets, retRec{env: out, vals: vals})
		} else {
			unsupported("fall off end")
		}
	}
	if len(cx.rets) == 0 {
		return tf
	}
	base := "go_" + sanitize(fi.Key)
	for i := 0; i < sig.Results().Len(); i++ {
		rt := sig.Results().At(i).Type()
		so := x.W.SortOf(rt)
		r := cx.rets[len(cx.rets)-1].vals[i]
		r = x.coerce(r, so)
		for j := len(cx.rets) - 2; j >= 0; j-- {
			r = Ite(cx.rets[j].env.pc, x.coerce(cx.rets[j].vals[i], so), r)
		}
		if r.Sort != so {
			return tf
		}
		name := fmt.Sprintf("%s$%d", base, i)
		x.W.Define(name, fmt.Sprintf("(define-fun %s (%s) %s %s)", name, strings.Join(formals, " "), so, r.S))
		tf.names = append(tf.names, name)
	}
	tf.ok = true
	x.W.Inlined[fi.Key]++
	return tf
}

func (x *Exec) newCtx(fi *FuncInfo, fc *FuncContract) *fctx {
	cx := &fctx{fi: fi, fc: fc, info: fi.Pkg.TypesInfo, loopOrd: map[ast.Node]int{}, ghosts: map[string]Term{}, closures: map[types.Object]*ast.FuncLit{}}
	n := 0
	if fi.Decl.Body != nil {
		ast.Inspect(fi.Decl.Body, func(nd ast.Node) bool {
			switch nd.(type) {
			case *ast.ForStmt, *ast.RangeStmt:
				cx.loopOrd[nd] = n
				n++
			}
			return true
		})
	}
	sig := fi.Obj.Type().(*types.Signature)
	for i := 0; i < sig.Results().Len(); i++ {
		cx.results = append(cx.results, sig.Results().At(i))
	}
	return cx
}

// ---------------------------------------------------------------------
// inlining (statement mode)

func (x *Exec) inlineCall(fi *FuncInfo, fc *FuncContract, call *ast.CallExpr, recvExpr ast.Expr, recv Term, args []Term, env *Env) []Term {
	saved := x.cx
	x.depth++
	x.quiet++
	defer func() { x.cx = saved; x.depth--; x.quiet-- }()
	cx := x.newCtx(fi, fc)
	x.cx = cx
	sig := fi.Obj.Type().(*types.Signature)
	ienv := &Env{vars: map[types.Object]Term{}, pc: env.pc}
	if rv := sig.Recv(); rv != nil {
		ienv.vars[rv] = recv
	}
	for i := 0; i < sig.Params().Len() && i < len(args); i++ {
		ienv.vars[sig.Params().At(i)] = args[i]
	}
	for _, rv := range cx.results {
		ienv.vars[rv] = x.zero(rv.Type())
	}
	cx.oldEnv = ienv.clone()
	out := x.execBlock(fi.Decl.Body.List, ienv)
	if out != nil {
		var vals []Term
		for _, rv := range cx.results {
			vals = append(vals, out.vars[rv])
		}
		cx.rets = append(cx.rets, retRec{env: out, vals: vals})
	}
	x.W.Inlined[fi.Key]++
	// merge return records
	var envs []*Env
	for _, r := range cx.rets {
		envs = append(envs, r.env)
	}
	if len(envs) == 0 {
		// callee never returns (panics): caller path ends
		env.pc = False
		var outv []Term
		for _, rv := range cx.results {
			outv = append(outv, x.zero(rv.Type()))
		}
		return outv
	}
	var results []Term
	for i, rv := range cx.results {
		so := x.W.SortOf(rv.Type())
		if len(cx.rets) == 1 {
			v := x.coerce(cx.rets[0].vals[i], so)
			v.GoT = rv.Type()
			results = append(results, v)
			continue
		}
		nv := x.W.Fresh("ret", so)
		nv.GoT = rv.Type()
		for _, r := range cx.rets {
			x.W.Facts = append(x.W.Facts, Implies(r.env.pc, Eq(nv, x.coerce(r.vals[i], so))).S)
		}
		results = append(results, nv)
	}
	merged := x.merge(envs)
	// receiver / pointer parameter write-back
	x.cx = saved
	if rv := sig.Recv(); rv != nil && recvExpr != nil {
		if _, isPtr := rv.Type().(*types.Pointer); isPtr {
			if nv, ok := merged.vars[rv]; ok && nv.S != recv.S {
				x.assign(recvExpr, nv, env)
			}
		}
	}
	for i := 0; i < sig.Params().Len() && i < len(call.Args); i++ {
		p := sig.Params().At(i)
		if _, isPtr := p.Type().Underlying().(*types.Pointer); isPtr {
			if nv, ok := merged.vars[p]; ok && nv.S != args[i].S {
				x.writeBackArg(call.Args[i], nv, env)
			}
		}
	}
	// the caller continues only on paths where the callee returned
	if merged.pc.S != env.pc.S {
		env.pc = merged.pc
	}
	return results
}

func (x *Exec) writeBackArg(a ast.Expr, nv Term, env *Env) {
	a = ast.Unparen(a)
	if u, ok := a.(*ast.UnaryExpr); ok && u.Op == token.AND {
		x.assign(u.X, nv, env)
		return
	}
	switch a.(type) {
	case *ast.Ident, *ast.SelectorExpr, *ast.IndexExpr, *ast.StarExpr:
		x.assign(a, nv, env)
	}
}

func (x *Exec) inlineClosure(fl *ast.FuncLit, call *ast.CallExpr, env *Env) []Term {
	// closure body executed in the caller's environment (captures by reference), parameters bound
	info := x.cx.info
	sig := info.TypeOf(fl).(*types.Signature)
	if x.depth >= maxInlineDepth {
		unsupported("closure recursion")
	}
	if x.inlining[fl] {
		// a closure that calls itself: the inner invocation is abstracted - every variable the body may assign is
		// havocked and the results are unconstrained. Safety obligations inside the inner invocations are not
		// generated, so this is admitted only where safety is not claimed.
		if x.safety {
			unsupported("recursive closure in a unit with safety obligations")
		}
		for _, a := range call.Args {
			x.eval(a, env)
		}
		var mods []types.Object
		for o := range assignedVars(info, fl.Body, x.cx.closures) {
			mods = append(mods, o)
		}
		sort.Slice(mods, func(i, j int) bool { return mods[i].Pos() < mods[j].Pos() })
		for _, o := range mods {
			if cur, ok := env.vars[o]; ok {
				nv := x.fresh(o.Name(), o.Type())
				if nv.Sort != cur.Sort {
					nv = x.W.Fresh(o.Name(), cur.Sort)
					nv.GoT = cur.GoT
				}
				env.vars[o] = nv
			}
		}
		var outv []Term
		for i := 0; i < sig.Results().Len(); i++ {
			outv = append(outv, x.fresh("crec", sig.Results().At(i).Type()))
		}
		return outv
	}
	if x.inlining == nil {
		x.inlining = map[*ast.FuncLit]bool{}
	}
	x.inlining[fl] = true
	defer delete(x.inlining, fl)
	x.depth++
	defer func() { x.depth-- }()
	for i, a := range call.Args {
		env.vars[sig.Params().At(i)] = x.evalAs(a, env, sig.Params().At(i).Type())
	}
	savedRets, savedResults, savedFrames := x.cx.rets, x.cx.results, x.cx.frames
	x.cx.rets = nil
	x.cx.results = nil
	x.cx.frames = nil
	for i := 0; i < sig.Results().Len(); i++ {
		rv := sig.Results().At(i)
		x.cx.results = append(x.cx.results, rv)
		env.vars[rv] = x.zero(rv.Type())
	}
	out := x.execBlock(fl.Body.List, env.clone())
	rets := x.cx.rets
	results := x.cx.results
	x.cx.rets, x.cx.results, x.cx.frames = savedRets, savedResults, savedFrames
	var envs []*Env
	if out != nil {
		var vals []Term
		for _, rv := range results {
			vals = append(vals, out.vars[rv])
		}
		rets = append(rets, retRec{env: out, vals: vals})
	}
	for _, r := range rets {
		envs = append(envs, r.env)
	}
	if len(envs) == 0 {
		env.pc = False
		return nil
	}
	var outv []Term
	for i, rv := range results {
		so := x.W.SortOf(rv.Type())
		if len(rets) == 1 {
			outv = append(outv, rets[0].vals[i])
			continue
		}
		nv := x.W.Fresh("cret", so)
		nv.GoT = rv.Type()
		for _, r := range rets {
			x.W.Facts = append(x.W.Facts, Implies(r.env.pc, Eq(nv, x.coerce(r.vals[i], so))).S)
		}
		outv = append(outv, nv)
	}
	m := x.merge(envs)
	env.vars = m.vars
	env.pc = m.pc
	return outv
}

// ---------------------------------------------------------------------
// call by contract

func (x *Exec) callByContract(fi *FuncInfo, fc *FuncContract, call *ast.CallExpr, recvExpr ast.Expr, recv Term, args []Term, env *Env) []Term {
	if x.termMode {
		unsupported("contract call in term mode")
	}
	sig := fi.Obj.Type().(*types.Signature)
	if fc.Flags["robust"] && len(fc.Ghosts) > 0 {
		// a caller that does not bind the callee's ghosts is checked against the callee's robust view
		all := true
		for _, g := range fc.Ghosts {
			bound := false
			if x.cx.fc != nil {
				for _, b := range x.cx.fc.Binds {
					if (b.Callee == fi.Obj.Name() || b.Callee == fi.Key) && b.Ghost == g.Name {
						bound = true
					}
				}
			}
			all = all && bound
		}
		if !all {
			fc = fc.RobustView()
			x.W.Note("call of " + fi.Key + " checked against its robust view (ghosts not bound)")
		}
	}
	pre := &Scope{x: x, pkg: fi.Pkg.Name, locals: map[string]Term{}}
	if rv := sig.Recv(); rv != nil {
		r := recv
		r.GoT = rv.Type()
		pre.locals[rv.Name()] = r
	}
	for i := 0; i < sig.Params().Len() && i < len(args); i++ {
		a := args[i]
		a.GoT = sig.Params().At(i).Type()
		pre.locals[sig.Params().At(i).Name()] = a
	}
	// closure literals passed for function-valued parameters: the callee's contract speaks about fv_<param>;
	// here that symbol is DEFINED by the closure body (single return expression; captured variables are the caller's
	// current values).  Only one definition per symbol and verification unit is allowed.
	for i := 0; i < sig.Params().Len() && i < len(call.Args); i++ {
		p := sig.Params().At(i)
		psig, isFn := p.Type().Underlying().(*types.Signature)
		fl, isLit := ast.Unparen(call.Args[i]).(*ast.FuncLit)
		if !isFn || !isLit || psig.Results().Len() != 1 || len(fl.Body.List) != 1 {
			continue
		}
		ret, ok := fl.Body.List[0].(*ast.ReturnStmt)
		if !ok || len(ret.Results) != 1 {
			continue
		}
		x.bindClosureUF("fv_"+sanitize(p.Name()), fl, ret.Results[0], env)
	}
	// ghost bindings
	callerSc := x.scopeAt(env, call.Pos())
	for _, g := range fc.Ghosts {
		var bound bool
		if x.cx.fc != nil {
			for _, b := range x.cx.fc.Binds {
				if (b.Callee == fi.Obj.Name() || b.Callee == fi.Key) && b.Ghost == g.Name {
					pre.locals[g.Name] = callerSc.Eval(b.Expr)
					bound = true
				}
			}
		}
		if !bound {
			pre.locals[g.Name] = x.freshOfTypeName(g.Name, g.Type, fi.Pkg.Name)
			x.W.Note("ghost " + g.Name + " of " + fi.Key + " unbound at call site (universally quantified)")
		}
	}
	for _, c := range fc.Lets {
		pre.locals[c.Label] = x.named(c.Label, pre.Eval(c.Expr))
	}
	tag := "call:" + fi.Obj.Name()
	if fc.Flags["trusted"] {
		x.W.Note("ASSUMED CONTRACT (flags trusted: body not verified): " + fi.Key)
	}
	for i, c := range fc.Requires {
		x.assert(env, tag+"/pre:"+clauseName(c, i), "", pre.EvalBool(c.Expr))
	}
	// recursion measure: callee's measure (in its pre-state) lexicographically below the caller's entry measure
	if len(fc.Measure) > 0 && len(x.cx.measure0) > 0 && x.quiet == 0 {
		var cm []Term
		for _, m := range fc.Measure {
			cm = append(cm, pre.Eval(m))
		}
		less := False
		eqPrefix := True
		for i := 0; i < len(cm) && i < len(x.cx.measure0); i++ {
			less = Or(less, And(eqPrefix, Cmp("<", cm[i], x.cx.measure0[i]), Cmp(">=", x.cx.measure0[i], IntLit(0))))
			eqPrefix = And(eqPrefix, Eq(cm[i], x.cx.measure0[i]))
		}
		x.assert(env, tag+"/decreases", "", less)
	}
	// post state
	post := &Scope{x: x, pkg: fi.Pkg.Name, locals: map[string]Term{}, oldLocals: pre.locals}
	for k, v := range pre.locals {
		post.locals[k] = v
	}
	if (fc.Flags["readonly"] || fc.Flags["pure"]) && !x.P.IsReadonly(fi) {
		unsupported("contract of %s claims readonly/pure but the body may write through its receiver or pointer parameters", fi.Key)
	}
	if fc.Flags["recvreadonly"] && !x.P.IsRecvReadonly(fi) {
		unsupported("contract of %s claims recvreadonly but the body may write through its receiver", fi.Key)
	}
	if rv := sig.Recv(); rv != nil {
		if _, isPtr := rv.Type().(*types.Pointer); isPtr && !fc.Flags["readonly"] && !fc.Flags["pure"] && !fc.Flags["recvreadonly"] {
			nv := x.fresh(rv.Name(), rv.Type())
			x.inferredFieldFrame(fi, call, recv, nv, rv.Type(), env)
			post.locals[rv.Name()] = nv
			if recvExpr != nil {
				x.assign(recvExpr, nv, env)
			}
		}
	}
	for i := 0; i < sig.Params().Len() && i < len(call.Args); i++ {
		p := sig.Params().At(i)
		if _, isPtr := p.Type().Underlying().(*types.Pointer); isPtr && !fc.Flags["readonly"] && !fc.Flags["pure"] {
			nv := x.fresh(p.Name(), p.Type())
			if i < len(args) {
				x.inferredFieldFrame(fi, call, args[i], nv, p.Type(), env)
			}
			post.locals[p.Name()] = nv
			x.writeBackArg(call.Args[i], nv, env)
		}
	}
	var results []Term
	names := contractResultNames(fi, fc)
	for i := 0; i < sig.Results().Len(); i++ {
		rt := sig.Results().At(i).Type()
		var r Term
		if fc.Flags["pure"] {
			// deterministic: uninterpreted function of receiver and arguments
			fname := fmt.Sprintf("uf_%s$%d", sanitize(fi.Key), i)
			var as []Term
			var sorts []Sort
			if sig.Recv() != nil {
				rr := x.eraseNoRead(fi, recv)
				as = append(as, rr)
				sorts = append(sorts, rr.Sort)
			}
			for _, a := range args {
				as = append(as, a)
				sorts = append(sorts, a.Sort)
			}
			x.W.DeclareFun(fname, sorts, x.W.SortOf(rt))
			r = T(app(fname, as...), x.W.SortOf(rt))
			if len(as) == 0 {
				r.S = fname
			}
			r.GoT = rt
			x.typeFacts(r, rt, env.pc)
		} else {
			r = x.fresh(fmt.Sprintf("%s_r%d", fi.Obj.Name(), i), rt)
		}
		results = append(results, r)
		if i < len(names) && names[i] != "" {
			post.locals[names[i]] = r
		}
	}
	for _, c := range fc.Ensures {
		func() {
			defer func() {
				if r := recover(); r != nil {
					if us, ok := r.(Unsupported); ok && strings.Contains(us.Msg, "unknown name") {
						// the clause speaks about a local of the callee: not usable at a call site (assume less)
						x.W.Note("ensures clause of " + fi.Key + " not usable at call sites: " + us.Msg)
						return
					}
					panic(r)
				}
			}()
			x.assume(env, post.EvalBool(c.Expr))
		}()
	}
	return results
}

func contractResultNames(fi *FuncInfo, fc *FuncContract) []string {
	if len(fc.Results) > 0 {
		return fc.Results
	}
	var names []string
	if fi.Decl.Type.Results != nil {
		for _, f := range fi.Decl.Type.Results.List {
			if len(f.Names) == 0 {
				names = append(names, "")
			}
			for _, n := range f.Names {
				names = append(names, n.Name)
			}
		}
	}
	return names
}

// abstractCall: unknown callee — results havocked, pointer receiver/arguments havocked.
func (x *Exec) abstractCall(key string, fn *types.Func, sig *types.Signature, call *ast.CallExpr, recvExpr ast.Expr, args []Term, env *Env) []Term {
	x.W.Note("call abstracted (results havocked): " + key)
	cfi, inMod := x.P.ByObj[fn]
	if inMod && x.P.IsReadonly(cfi) {
		// syntactically read-only callee: receiver and pointer arguments keep their values
		var out []Term
		for i := 0; i < sig.Results().Len(); i++ {
			out = append(out, x.fresh(fmt.Sprintf("%s_r%d", fn.Name(), i), sig.Results().At(i).Type()))
		}
		return out
	}
	if rv := sig.Recv(); rv != nil && recvExpr != nil && inMod {
		if _, isPtr := rv.Type().(*types.Pointer); isPtr {
			if isAddressable(recvExpr) {
				oldv := x.eval(recvExpr, env)
				nv := x.fresh("hv", x.cx.info.TypeOf(recvExpr))
				x.inferredFieldFrame(cfi, call, oldv, nv, x.cx.info.TypeOf(recvExpr), env)
				x.assign(recvExpr, nv, env)
			}
		}
	}
	if inMod {
		// pointers that escaped into an earlier abstract callee may be written by this one too
		if x.cx != nil {
			var keys []string
			for k := range x.cx.escaped {
				keys = append(keys, k)
			}
			sort.Strings(keys)
			for _, k := range keys {
				e := x.cx.escaped[k]
				x.writeBackArg(e, x.fresh("hv", x.cx.info.TypeOf(e)), env)
			}
		}
		for i, a := range call.Args {
			if i >= sig.Params().Len() {
				break
			}
			_, prmPtr := sig.Params().At(i).Type().Underlying().(*types.Pointer)
			_, prmIface := sig.Params().At(i).Type().Underlying().(*types.Interface)
			_, argPtr := x.cx.info.TypeOf(a).Underlying().(*types.Pointer)
			if prmPtr || (prmIface && argPtr) {
				if argPtr && isLibPointer(x.cx.info.TypeOf(a)) {
					continue
				}
				nv := x.fresh("hv", x.cx.info.TypeOf(a))
				if prmPtr && i < len(args) {
					x.inferredFieldFrame(cfi, call, args[i], nv, x.cx.info.TypeOf(a), env)
				}
				x.writeBackArg(a, nv, env)
				if prmIface && isAddressable(a) && x.cx != nil {
					// stored behind an interface by the callee: treat as escaped from here on
					if x.cx.escaped == nil {
						x.cx.escaped = map[string]ast.Expr{}
					}
					x.cx.escaped[types.ExprString(a)] = a
				}
			}
		}
	}
	var out []Term
	for i := 0; i < sig.Results().Len(); i++ {
		out = append(out, x.fresh(fmt.Sprintf("%s_r%d", fn.Name(), i), sig.Results().At(i).Type()))
	}
	return out
}

// isLibPointer: pointer to a type declared outside the module (opaque library struct)
func isLibPointer(t types.Type) bool {
	p, ok := t.Underlying().(*types.Pointer)
	if !ok {
		return false
	}
	n, ok := p.Elem().(*types.Named)
	if !ok || n.Obj().Pkg() == nil {
		return false
	}
	return !strings.HasPrefix(n.Obj().Pkg().Path(), "github.com/tsawler/tabula")
}

func isAddressable(e ast.Expr) bool {
	switch e := ast.Unparen(e).(type) {
	case *ast.Ident:
		return true
	case *ast.SelectorExpr:
		return isAddressable(e.X)
	case *ast.IndexExpr:
		return isAddressable(e.X)
	case *ast.StarExpr:
		return isAddressable(e.X)
	}
	return false
}

func (x *Exec) freshOfTypeName(hint, tname, pkg string) Term {
	t := x.resolveTypeName(tname, pkg)
	if t.goT != nil {
		return x.fresh(hint, t.goT)
	}
	v := x.W.Fresh(hint, t.sort)
	return v
}

// callsiteClauses: in full-function verification, `callsite callee(params) requires e` is asserted at every call
// of the named callee with the parameters bound to the actual arguments (locals of the caller are in scope).
func (x *Exec) callsiteClauses(fn *types.Func, key string, call *ast.CallExpr, args []Term, env *Env) {
	if x.cx == nil || x.cx.fc == nil || x.quiet > 0 || x.termMode || x.cx.fc.Flags["callsites"] {
		return
	}
	for i, cs := range x.cx.fc.Callsite {
		if cs.Callee == "make" || (cs.Callee != key && cs.Callee != fn.Name()) {
			continue
		}
		if cs.Ordinal > 0 && x.callOrdinal(call, fn) != cs.Ordinal {
			continue
		}
		sc := x.scopeAt(env, call.Pos())
		for j, p := range cs.Params {
			if j < len(args) {
				sc.locals[p] = args[j]
			}
		}
		x.assert(env, "callsite:"+fn.Name()+"/"+clauseName(cs.Clause, i), "", sc.EvalBool(cs.Clause.Expr))
	}
}

// inferredFieldFrame: the callee (and everything it can reach in the call graph) never writes some fields of the
// struct behind a pointer it receives: those fields keep their values across the call (see frames.go).
func (x *Exec) inferredFieldFrame(cfi *FuncInfo, call *ast.CallExpr, oldV, newV Term, t types.Type, env *Env) {
	if cfi == nil || x.termMode || oldV.Sort != newV.Sort {
		return
	}
	pt, ok := t.Underlying().(*types.Pointer)
	if !ok {
		return
	}
	// a callee receives the pointer by value: it cannot make the caller's pointer nil or non-nil
	pn := "isnilptr_" + sanitize(string(oldV.Sort))
	x.W.DeclareFun(pn, []Sort{oldV.Sort}, SBool)
	x.W.AddFact(env.pc, Eq(T("("+pn+" "+newV.S+")", SBool), T("("+pn+" "+oldV.S+")", SBool)))
	named, ok := pt.Elem().(*types.Named)
	if !ok {
		return
	}
	st, ok := named.Underlying().(*types.Struct)
	if !ok || x.P.ByName[named.Obj().Pkg().Name()] == nil {
		return
	}
	// (callbacks: a callee that calls through a function value is taken to reach every function that contains a
	// closure literal or is referenced as a value, see frames.go)
	kept := 0
	for i := 0; i < st.NumFields(); i++ {
		f := st.Field(i)
		if f.Name() == "_" || f.Embedded() {
			continue
		}
		if x.P.MayWriteField(cfi, named.Obj(), f) {
			continue
		}
		fo, ok1 := x.W.Field(oldV, f.Name())
		fn, ok2 := x.W.Field(newV, f.Name())
		if ok1 && ok2 && fo.Sort == fn.Sort {
			x.W.AddFact(env.pc, Eq(fn, fo))
			kept++
		}
	}
	if kept > 0 {
		x.W.Note(fmt.Sprintf("inferred frame: %d field(s) of %s not writable by %s or its callees keep their values", kept, named.Obj().Name(), cfi.Key))
	}
}

// callOrdinal: 1-based position (source order) of call among the calls of the same callee in the current function.
func (x *Exec) callOrdinal(call *ast.CallExpr, fn *types.Func) int {
	n, found := 0, 0
	ast.Inspect(x.cx.fi.Decl.Body, func(nd ast.Node) bool {
		c, ok := nd.(*ast.CallExpr)
		if !ok || found > 0 {
			return found == 0
		}
		if x.calleeOf(c) == fn {
			n++
			if c == call {
				found = n
			}
		}
		return true
	})
	return found
}

// bindClosureUF: forall args :: name$0(args) == <closure result expression>.
func (x *Exec) bindClosureUF(name string, fl *ast.FuncLit, result ast.Expr, env *Env) {
	defer func() {
		if r := recover(); r != nil {
			if _, ok := r.(Unsupported); ok {
				x.W.Note("closure passed for " + name + " is not expressible as a term: left uninterpreted")
				return
			}
			panic(r)
		}
	}()
	if x.W.closureBound == nil {
		x.W.closureBound = map[string]bool{}
	}
	if x.W.closureBound[name] {
		unsupported("second closure bound to %s in one verification unit", name)
	}
	info := x.cx.info
	sub := env.clone()
	var decls, argS []string
	var sorts []Sort
	for _, f := range fl.Type.Params.List {
		for _, id := range f.Names {
			obj := info.Defs[id]
			x.W.nfresh++
			qn := fmt.Sprintf("%s!c%d", id.Name, x.W.nfresh)
			so := x.W.SortOf(obj.Type())
			v := T(qn, so)
			v.GoT = obj.Type()
			sub.vars[obj] = v
			decls = append(decls, fmt.Sprintf("(%s %s)", qn, so))
			argS = append(argS, qn)
			sorts = append(sorts, so)
		}
	}
	var body Term
	func() {
		x.noFacts++
		x.quiet++
		savedTM := x.termMode
		x.termMode = true
		defer func() { x.noFacts--; x.quiet--; x.termMode = savedTM }()
		body = x.eval(result, sub)
	}()
	rs := x.W.SortOf(info.TypeOf(result))
	if body.Sort != rs {
		unsupported("closure result sort")
	}
	fn := name + "$0"
	x.W.DeclareFun(fn, sorts, rs)
	appS := "(" + fn + " " + strings.Join(argS, " ") + ")"
	x.W.Facts = append(x.W.Facts, fmt.Sprintf("(forall (%s) (! (= %s %s) :pattern (%s)))", strings.Join(decls, " "), appS, body.S, appS))
	x.W.closureBound[name] = true
	x.W.Note("closure literal defines " + name + " at this call (single definition per unit)")
}

// calledByContract: the callee of call is a module function with a (non-inline) contract.
func (x *Exec) calledByContract(call *ast.CallExpr) bool {
	fn := x.calleeOf(call)
	if fn == nil {
		return false
	}
	fi := x.P.ByObj[fn]
	if fi == nil {
		return false
	}
	fc := x.P.Contracts.Funcs[fi.Key]
	return fc != nil && !fc.Flags["inline"]
}
