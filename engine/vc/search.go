package vc

import (
	"fmt"
	"go/types"
	"math/big"
	"os"
	"path/filepath"
	"strconv"
	"strings"
	"time"
)

// Counterexample search and replay (DESIGN §2.1 steps 5b and 7).
//
// After an obligation of a function unit fails, the same function is re-generated in SEARCH mode: loops are unrolled a
// bounded number of times from the real entry state (no invariants, no havoc), sequence lengths are capped, and every
// post-condition / safety obligation is posed as a satisfiability query.  A model is an entry state (parameters and ghost
// witnesses).  It is then REPLAYED: a generated in-package Go test calls the real function on that input and evaluates
// the contract (compiled to Go by gogen.go) on the real results.  Only a replay that fails on the real code makes the
// violation "confirmed"; the bounds only limit which inputs are found, never what is accepted as proved.

const (
	searchUnroll = 5
	searchMaxLen = 6
)

type ReplayResult struct {
	PkgDir  string
	Status  string // confirmed, not-reproduced, not-replayable, no-model
	Detail  string
	Test    string // generated Go test
	Output  string
	Model   map[string]string
	Against string // obligation whose search query produced the model
}

// valuePlan: which terms to ask the solver for, and how to render the Go literal.
type valuePlan struct {
	terms  []string
	render func(v map[string]string) (string, bool)
}

func parseIntVal(s string) (*big.Int, bool) {
	s = strings.TrimSpace(s)
	neg := false
	if strings.HasPrefix(s, "(-") {
		neg = true
		s = strings.TrimSpace(strings.TrimSuffix(strings.TrimPrefix(s, "(-"), ")"))
	}
	n, ok := new(big.Int).SetString(s, 10)
	if !ok {
		return nil, false
	}
	if neg {
		n.Neg(n)
	}
	return n, true
}

func parseRealVal(s string) (string, bool) {
	s = strings.TrimSpace(s)
	neg := false
	if strings.HasPrefix(s, "(- ") {
		neg = true
		s = strings.TrimSpace(strings.TrimSuffix(strings.TrimPrefix(s, "(- "), ")"))
	}
	var r *big.Rat
	if strings.HasPrefix(s, "(/ ") {
		parts := strings.Fields(strings.TrimSuffix(strings.TrimPrefix(s, "(/ "), ")"))
		if len(parts) != 2 {
			return "", false
		}
		a, ok1 := new(big.Rat).SetString(parts[0])
		b, ok2 := new(big.Rat).SetString(parts[1])
		if !ok1 || !ok2 || b.Sign() == 0 {
			return "", false
		}
		r = new(big.Rat).Quo(a, b)
	} else {
		var ok bool
		r, ok = new(big.Rat).SetString(s)
		if !ok {
			return "", false
		}
	}
	if neg {
		r.Neg(r)
	}
	f, _ := r.Float64()
	return strconv.FormatFloat(f, 'g', -1, 64), true
}

func (g *goGen) planFor(w *World, t Term, gt types.Type, depth int) (valuePlan, bool) {
	if gt == nil || depth > 3 {
		return valuePlan{}, false
	}
	switch u := gt.Underlying().(type) {
	case *types.Basic:
		switch {
		case u.Info()&types.IsBoolean != 0:
			return valuePlan{[]string{t.S}, func(v map[string]string) (string, bool) { return v[t.S], v[t.S] == "true" || v[t.S] == "false" }}, true
		case u.Info()&types.IsInteger != 0:
			tn := g.typeName(gt)
			return valuePlan{[]string{t.S}, func(v map[string]string) (string, bool) {
				n, ok := parseIntVal(v[t.S])
				if !ok {
					return "", false
				}
				return tn + "(" + n.String() + ")", true
			}}, true
		case u.Info()&types.IsFloat != 0:
			tn := g.typeName(gt)
			return valuePlan{[]string{t.S}, func(v map[string]string) (string, bool) {
				f, ok := parseRealVal(v[t.S])
				if !ok {
					return "", false
				}
				return tn + "(" + f + ")", true
			}}, true
		case u.Info()&types.IsString != 0:
			return g.seqPlan(w, t, gt, types.Typ[types.Uint8], depth, true)
		}
	case *types.Slice:
		return g.seqPlan(w, t, gt, u.Elem(), depth, false)
	case *types.Array:
		if u.Len() > 16 {
			return valuePlan{}, false
		}
		var plans []valuePlan
		var terms []string
		for i := int64(0); i < u.Len(); i++ {
			el := Select(t, IntLit(i))
			p, ok := g.planFor(w, el, u.Elem(), depth+1)
			if !ok {
				return valuePlan{}, false
			}
			plans = append(plans, p)
			terms = append(terms, p.terms...)
		}
		tn := g.typeName(gt)
		return valuePlan{terms, func(v map[string]string) (string, bool) {
			var xs []string
			for _, p := range plans {
				s, ok := p.render(v)
				if !ok {
					return "", false
				}
				xs = append(xs, s)
			}
			return tn + "{" + strings.Join(xs, ", ") + "}", true
		}}, true
	case *types.Pointer:
		p, ok := g.planFor(w, t, u.Elem(), depth)
		if !ok {
			return valuePlan{}, false
		}
		if _, isStruct := u.Elem().Underlying().(*types.Struct); !isStruct {
			return valuePlan{}, false
		}
		return valuePlan{p.terms, func(v map[string]string) (string, bool) {
			s, ok := p.render(v)
			return "&" + s, ok
		}}, true
	case *types.Struct:
		d := w.datas[t.Sort]
		if d == nil || strings.HasPrefix(string(t.Sort), "U_") {
			return valuePlan{}, false
		}
		tn := g.typeName(gt)
		type fp struct {
			name string
			p    valuePlan
		}
		var fps []fp
		var terms []string
		for i := 0; i < u.NumFields() && i < len(d.Fields); i++ {
			f := u.Field(i)
			if f.Name() == "_" {
				continue
			}
			ft, ok := w.Field(t, d.Fields[i].Name)
			if !ok {
				continue
			}
			p, ok := g.planFor(w, ft, f.Type(), depth+1)
			if !ok {
				continue // field left at its zero value
			}
			fps = append(fps, fp{f.Name(), p})
			terms = append(terms, p.terms...)
		}
		return valuePlan{terms, func(v map[string]string) (string, bool) {
			var xs []string
			for _, f := range fps {
				s, ok := f.p.render(v)
				if !ok {
					continue
				}
				xs = append(xs, f.name+": "+s)
			}
			return tn + "{" + strings.Join(xs, ", ") + "}", true
		}}, true
	}
	return valuePlan{}, false
}

func (g *goGen) seqPlan(w *World, t Term, gt, et types.Type, depth int, isString bool) (valuePlan, bool) {
	if !w.IsSeq(t.Sort) {
		return valuePlan{}, false
	}
	lenT := w.SeqLen(t)
	var plans []valuePlan
	terms := []string{lenT.S}
	n := searchMaxLen
	if depth > 0 {
		n = 3
	}
	for i := 0; i < n; i++ {
		el := w.SeqAt(t, IntLit(int64(i)))
		p, ok := g.planFor(w, el, et, depth+1)
		if !ok {
			return valuePlan{}, false
		}
		plans = append(plans, p)
		terms = append(terms, p.terms...)
	}
	tn := g.typeName(gt)
	return valuePlan{terms, func(v map[string]string) (string, bool) {
		ln, ok := parseIntVal(v[lenT.S])
		if !ok || ln.Sign() < 0 || ln.Int64() > int64(n) {
			return "", false
		}
		var xs []string
		for i := 0; i < int(ln.Int64()); i++ {
			s, ok := plans[i].render(v)
			if !ok {
				return "", false
			}
			xs = append(xs, s)
		}
		if isString {
			// render as a string of bytes
			var bs []byte
			for _, x := range xs {
				k := strings.Index(x, "(")
				iv, err := strconv.Atoi(strings.TrimSuffix(x[k+1:], ")"))
				if err != nil || iv < 0 || iv > 255 {
					return "", false
				}
				bs = append(bs, byte(iv))
			}
			return tn + "(" + strconv.Quote(string(bs)) + ")", true
		}
		return tn + "{" + strings.Join(xs, ", ") + "}", true
	}}, true
}

// SearchAndReplay looks for a concrete input violating the contract of fc and replays it on the real code.
func SearchAndReplay(p *Program, o CheckOpts, fc *FuncContract, failing string) ReplayResult {
	res := ReplayResult{Status: "no-model"}
	fi := p.Funcs[fc.Key()]
	if fi == nil || fc.Flags["callsites"] || fc.Flags["frameonly"] {
		res.Status = "not-replayable"
		res.Detail = "no executable unit"
		return res
	}
	var su *Unit
	func() {
		defer func() {
			if r := recover(); r != nil {
				res.Detail = fmt.Sprint(r)
			}
		}()
		su = verifyFuncMode(p, fc, o.Prop, searchUnroll)
	}()
	if su == nil || su.Err != "" {
		res.Status = "not-replayable"
		if su != nil {
			res.Detail = "search-mode generation failed: " + su.Err
		}
		return res
	}
	w := su.World
	g := &goGen{p: p, pkg: fi.Pkg.Name, specs: map[string]bool{}, imports: map[string]string{"testing": "testing", "fmt": "fmt"}}
	// plans for entry values
	type ent struct {
		nt   NamedTerm
		plan valuePlan
		kind string
	}
	var ents []ent
	add := func(nt NamedTerm, kind string) bool {
		pl, ok := g.planFor(w, nt.Term, nt.GoT, 0)
		if !ok {
			res.Status = "not-replayable"
			res.Detail = fmt.Sprintf("%s %s of type %v cannot be built by the replay harness", kind, nt.Name, nt.GoT)
			return false
		}
		ents = append(ents, ent{nt, pl, kind})
		return true
	}
	if su.Recv != nil && !add(*su.Recv, "receiver") {
		return res
	}
	for _, pr := range su.Params {
		if !add(pr, "parameter") {
			return res
		}
	}
	for _, gh := range su.Ghosts {
		if !add(gh, "ghost") {
			return res
		}
	}
	var terms []string
	boundsFor := func(n int) []string {
		var bounds []string
		for _, e := range ents {
			if w.IsSeq(e.nt.Term.Sort) {
				bounds = append(bounds, fmt.Sprintf("(assert (<= %s %d))", w.SeqLen(e.nt.Term).S, n))
				bounds = append(bounds, fmt.Sprintf("(assert (= %s 0))", w.SeqOff(e.nt.Term).S))
			}
		}
		return bounds
	}
	for _, e := range ents {
		terms = append(terms, e.plan.terms...)
	}
	// candidate goals: prefer the one with the same local name as the failing obligation, then all posts and safety
	var first, posts, others []*Obligation
	suffix := failing[strings.LastIndex(failing, "/")+1:]
	seenBase := map[string]bool{}
	for _, ob := range w.Obls {
		if ob.Expect == "sat" || ob.Preset {
			continue
		}
		switch {
		case strings.HasSuffix(ob.Name, "/"+suffix):
			first = append(first, ob)
		case ob.Kind == "post" || strings.HasPrefix(ob.Kind, "post"):
			posts = append(posts, ob)
		default:
			base := ob.Name
			if k := strings.LastIndex(base, "#"); k > 0 {
				base = base[:k]
			}
			if seenBase[base] {
				continue // later unrollings of the same safety obligation: one representative (the last) is kept below
			}
			seenBase[base] = true
			others = append(others, ob)
		}
	}
	cands := append(append(first, posts...), others...)
	work := filepath.Join(o.Verif, "work", o.Prop, "search")
	os.MkdirAll(work, 0o755)
	deadline := time.Now().Add(60 * time.Second)
	tried := 0
	type job struct {
		ob *Obligation
		n  int
	}
	var jobs []job
	// staged bounds: small sequences first (the queries are quantifier-free but grow quickly with the length)
	for _, n := range []int{1, 2, 3, 4, searchMaxLen} {
		for i, ob := range cands {
			if i < len(first)+len(posts) || n == 3 {
				jobs = append(jobs, job{ob, n})
			}
		}
	}
	// all queries are written first and solved in parallel; the first satisfiable one in priority order is replayed
	type jres struct {
		r, out string
	}
	results := make([]jres, len(jobs))
	if len(jobs) > 48 {
		jobs = jobs[:48]
		results = results[:48]
	}
	files := make([]string, len(jobs))
	for k, jb := range jobs {
		ob := jb.ob
		var b strings.Builder
		b.WriteString("(set-option :produce-models true)\n")
		b.WriteString(w.Preamble(true))
		for i := 0; i < ob.FactsN && i < len(w.Facts); i++ {
			b.WriteString("(assert " + w.Facts[i] + ")\n")
		}
		for _, bd := range boundsFor(jb.n) {
			b.WriteString(bd + "\n")
		}
		b.WriteString("(assert " + ob.PC + ")\n(assert (not " + ob.Goal + "))\n(check-sat)\n")
		b.WriteString("(get-value (" + strings.Join(dedupe(terms), " ") + "))\n")
		files[k] = filepath.Join(work, fmt.Sprintf("s%03d.smt2", k+1))
		os.WriteFile(files[k], []byte(fmt.Sprintf("; search %s (lengths <= %d)\n", ob.Name, jb.n)+b.String()), 0o644)
	}
	sem := make(chan bool, 14)
	done := make(chan int, len(jobs))
	for k := range jobs {
		k := k
		go func() {
			sem <- true
			r, out, _ := runSolver(solvers[0], files[k], 30*time.Second)
			if r != "sat" && r != "unsat" {
				cv := solverSpec{"cvc5", func(f string, s int) []string {
					return []string{"cvc5", "--lang=smt2", "--produce-models", fmt.Sprintf("--tlimit=%d", s*1000), f}
				}}
				r2, out2, _ := runSolver(cv, files[k], 15*time.Second)
				if r2 == "sat" {
					r, out = r2, out2
				}
			}
			results[k] = jres{r, out}
			<-sem
			done <- k
		}()
	}
	for range jobs {
		<-done
	}
	_ = deadline
	for k, jb := range jobs {
		ob := jb.ob
		tried++
		r, out := results[k].r, results[k].out
		if r != "sat" {
			continue
		}
		vals := parseGetValue(out)
		res.Model = map[string]string{}
		ok := true
		var decls []string
		var names []string
		for _, e := range ents {
			lit, good := e.plan.render(vals)
			if !good {
				ok = false
				break
			}
			res.Model[e.nt.Name] = lit
			decls = append(decls, fmt.Sprintf("\t%s := %s", goName(e.nt.Name), lit))
			names = append(names, e.nt.Name)
		}
		if !ok {
			continue
		}
		res.Against = ob.Name
		test, why := g.buildTest(fi, fc, su, decls)
		if test == "" {
			res.Status = "not-replayable"
			res.Detail = why
			return res
		}
		res.Test = test
		tf := filepath.Join(work, "zz_gocv_replay_test.go")
		os.WriteFile(tf, []byte(test), 0o644)
		pkgDir, _ := filepath.Rel(o.Repo, filepath.Dir(fi.File))
		res.PkgDir = pkgDir
		failed, output := RunOverlayTest(o.Repo, o.Verif, pkgDir, tf, "TestGocvReplay", "gocv_replay")
		res.Output = trimLong(output, 1500)
		switch {
		case strings.Contains(output, "GOCV-REPLAY: VIOLATED") || strings.Contains(output, "GOCV-REPLAY: PANIC") || strings.Contains(output, "test timed out"):
			res.Status = "confirmed"
			for _, l := range strings.Split(output, "\n") {
				if strings.Contains(l, "GOCV-REPLAY:") {
					res.Detail = strings.TrimSpace(l)
					break
				}
			}
			if res.Detail == "" {
				res.Detail = "replay did not terminate within the test timeout"
			}
			return res
		case strings.Contains(output, "GOCV-REPLAY: PRECONDITION"):
			res.Status = "not-reproduced"
			res.Detail = "the model does not satisfy the compiled precondition (spurious under the search abstraction)"
		case failed:
			res.Status = "not-replayable"
			res.Detail = "generated replay test does not build or run: " + trimLong(output, 400)
			return res
		default:
			res.Status = "not-reproduced"
			res.Detail = fmt.Sprintf("the real code satisfies the %d replayable ensures clause(s) on the model's input (model spurious: callee contract, abstraction artefact, or the violated clause is not replayable)", g.nChecked)
			if g.nChecked == 0 {
				res.Status = "not-replayable"
			}
		}
	}
	if res.Status == "no-model" {
		res.Detail = fmt.Sprintf("no model within the search bounds (unroll %d, lengths <= %d, %d goals tried)", searchUnroll, searchMaxLen, tried)
	}
	return res
}

func goName(n string) string { return "in_" + sanitize(n) }

func dedupe(xs []string) []string {
	seen := map[string]bool{}
	var out []string
	for _, x := range xs {
		if !seen[x] {
			seen[x] = true
			out = append(out, x)
		}
	}
	return out
}

func trimLong(s string, n int) string {
	if len(s) > n {
		return s[:n] + "…"
	}
	return s
}

// buildTest renders the replay test.
func (g *goGen) buildTest(fi *FuncInfo, fc *FuncContract, su *Unit, decls []string) (string, string) {
	sig := fi.Obj.Type().(*types.Signature)
	sc := &goScope{vars: map[string]goVal{}, old: map[string]goVal{}}
	var pre []string
	bindVar := func(name string, gt types.Type) {
		cls, elem := clsOfGoType(gt)
		v := goVal{code: goName(name), cls: cls, elem: elem, goT: gt}
		if cls == "I" {
			v = goVal{code: "int(" + goName(name) + ")", cls: "I", goT: gt}
		}
		if cls == "R" {
			v = goVal{code: "float64(" + goName(name) + ")", cls: "R", goT: gt}
		}
		sc.vars[name] = v
		// old(x): snapshot before the call
		on := "old_" + sanitize(name)
		switch u := gt.Underlying().(type) {
		case *types.Slice:
			pre = append(pre, fmt.Sprintf("\t%s := append(%s(nil), %s...)", on, g.typeName(gt), goName(name)))
			_ = u
		case *types.Pointer:
			pre = append(pre, fmt.Sprintf("\t%s := &[]%s{*%s}[0]", on, g.typeName(u.Elem()), goName(name)))
		default:
			pre = append(pre, fmt.Sprintf("\t%s := %s", on, goName(name)))
		}
		ov := goVal{code: on, cls: cls, elem: elem, goT: gt}
		if cls == "I" {
			ov.code = "int(" + on + ")"
		}
		if cls == "R" {
			ov.code = "float64(" + on + ")"
		}
		sc.old[name] = ov
	}
	if su.Recv != nil {
		bindVar(su.Recv.Name, su.Recv.GoT)
	}
	for _, p := range su.Params {
		bindVar(p.Name, p.GoT)
	}
	for _, gh := range su.Ghosts {
		if gh.GoT == nil {
			return "", "ghost " + gh.Name + " has no Go type"
		}
		bindVar(gh.Name, gh.GoT)
	}
	// function-level lets
	var lets []string
	for _, c := range fc.Lets {
		v := g.expr(c.Expr, sc)
		ty := g.goTypeOfCls(v)
		if ty == "" || g.fail != "" {
			return "", "let " + c.Label + ": " + g.fail
		}
		nm := "let_" + sanitize(c.Label)
		lets = append(lets, fmt.Sprintf("\t%s := %s; _ = %s", nm, v.code, nm))
		lv := goVal{code: nm, cls: v.cls, elem: v.elem, goT: v.goT}
		sc.vars[c.Label] = lv
		sc.old[c.Label] = lv
	}
	// requires
	var reqs []string
	for i, c := range fc.Requires {
		v := g.expr(c.Expr, sc)
		if g.fail != "" {
			return "", "requires " + clauseName(c, i) + ": " + g.fail
		}
		reqs = append(reqs, fmt.Sprintf("\tif !(%s) { fmt.Println(\"GOCV-REPLAY: PRECONDITION %s does not hold for the model\"); return }", v.code, clauseName(c, i)))
	}
	// call
	var args []string
	for _, p := range su.Params {
		args = append(args, goName(p.Name))
	}
	callee := fi.Decl.Name.Name
	if su.Recv != nil {
		callee = goName(su.Recv.Name) + "." + callee
	}
	var rnames []string
	cnames := contractResultNames(fi, fc)
	for i := 0; i < sig.Results().Len(); i++ {
		rn := fmt.Sprintf("res%d", i)
		rnames = append(rnames, rn)
		rt := sig.Results().At(i).Type()
		var v goVal
		if isErrorType(rt) {
			v = goVal{code: "(" + rn + " != nil)", cls: "B"}
		} else {
			v = wrapRead(rn, rt)
		}
		if i < len(cnames) && cnames[i] != "" {
			sc.vars[cnames[i]] = v
		}
		sc.vars[fmt.Sprintf("$ret%d", i)] = v
	}
	call := callee + "(" + strings.Join(args, ", ") + ")"
	if len(rnames) > 0 {
		call = strings.Join(rnames, ", ") + " := " + call
	}
	var uses []string
	for _, rn := range rnames {
		uses = append(uses, "_ = "+rn)
	}
	// ensures
	var checks []string
	nChecked := 0
	defer func() { g.nChecked = nChecked }()
	for i, c := range fc.Ensures {
		g.fail = ""
		v := g.expr(c.Expr, sc)
		if g.fail != "" {
			checks = append(checks, fmt.Sprintf("\t// ensures %s not replayable: %s", clauseName(c, i), g.fail))
			g.fail = ""
			continue
		}
		nChecked++
		checks = append(checks, fmt.Sprintf("\tif !(%s) { fmt.Println(\"GOCV-REPLAY: VIOLATED ensures %s on the real code\"); t.Fail() }", v.code, clauseName(c, i)))
	}
	var b strings.Builder
	fmt.Fprintf(&b, "package %s\n\n// Generated by gocv: replay of a counterexample for %s on the real code.\n\nimport (\n", fi.Pkg.Name, fc.Key())
	for _, path := range sortedImports(g.imports) {
		fmt.Fprintf(&b, "\t%s %q\n", g.imports[path], path)
	}
	b.WriteString(")\n\nvar _ = fmt.Sprint\n")
	b.WriteString(goHelpers)
	if g.needValEq {
		b.WriteString(goValEqHelper)
	}
	for _, d := range g.out {
		b.WriteString(d + "\n")
	}
	b.WriteString("\nfunc TestGocvReplay(t *testing.T) {\n")
	b.WriteString("\tgocvPhase := \"contract\"\n\t_ = gocvPhase\n")
	b.WriteString("\tdefer func() { if r := recover(); r != nil { if gocvPhase == \"call\" { fmt.Println(\"GOCV-REPLAY: PANIC on the real code:\", r); t.Fail() } else { fmt.Println(\"GOCV-REPLAY: PRECONDITION (a contract expression is not evaluable on this input):\", r) } } }()\n")
	for _, d := range decls {
		b.WriteString(d + "\n")
	}
	for _, e := range append(append([]NamedTerm{}, su.Params...), su.Ghosts...) {
		b.WriteString("\t_ = " + goName(e.Name) + "\n")
	}
	for _, l := range pre {
		b.WriteString(l + "\n")
		b.WriteString("\t_ = " + strings.TrimSpace(strings.SplitN(strings.TrimSpace(l), ":=", 2)[0]) + "\n")
	}
	for _, l := range lets {
		b.WriteString(l + "\n")
	}
	for _, l := range reqs {
		b.WriteString(l + "\n")
	}
	b.WriteString("\tgocvPhase = \"call\"\n\t" + call + "\n\tgocvPhase = \"contract\"\n")
	for _, u := range uses {
		b.WriteString("\t" + u + "\n")
	}
	for _, l := range checks {
		b.WriteString(l + "\n")
	}
	b.WriteString("\tfmt.Println(\"GOCV-REPLAY: done\")\n}\n")
	return b.String(), ""
}

func isErrorType(t types.Type) bool {
	n, ok := t.(*types.Named)
	return ok && n.Obj().Pkg() == nil && n.Obj().Name() == "error"
}

// SampleReplay (thorough tier): validates contracts and the engine's model of Go against the REAL code on the unchanged
// tree: models of the precondition (staged sequence lengths) are replayed through the generated test; the compiled
// post-conditions must hold on the real results.  Returns (#replays run, #passed, #not replayable, failures).
func SampleReplay(p *Program, o CheckOpts, fc *FuncContract) (run, passed, skipped int, failures []string) {
	fi := p.Funcs[fc.Key()]
	if fi == nil || fc.Flags["callsites"] || fc.Flags["frameonly"] || len(fc.Ensures) == 0 {
		return 0, 0, 1, nil
	}
	var su *Unit
	func() {
		defer func() { recover() }()
		su = verifyFuncMode(p, fc, o.Prop, searchUnroll)
	}()
	if su == nil || su.Err != "" {
		return 0, 0, 1, nil
	}
	w := su.World
	g := &goGen{p: p, pkg: fi.Pkg.Name, specs: map[string]bool{}, imports: map[string]string{"testing": "testing", "fmt": "fmt"}}
	type ent struct {
		nt   NamedTerm
		plan valuePlan
	}
	var ents []ent
	add := func(nt NamedTerm) bool {
		pl, ok := g.planFor(w, nt.Term, nt.GoT, 0)
		if !ok {
			return false
		}
		ents = append(ents, ent{nt, pl})
		return true
	}
	if su.Recv != nil && !add(*su.Recv) {
		return 0, 0, 1, nil
	}
	for _, pr := range su.Params {
		if !add(pr) {
			return 0, 0, 1, nil
		}
	}
	for _, gh := range su.Ghosts {
		if !add(gh) {
			return 0, 0, 1, nil
		}
	}
	var req *Obligation
	for _, ob := range w.Obls {
		if strings.HasSuffix(ob.Name, "/cover:requires") {
			req = ob
		}
	}
	if req == nil {
		return 0, 0, 1, nil
	}
	var terms []string
	for _, e := range ents {
		terms = append(terms, e.plan.terms...)
	}
	work := filepath.Join(o.Verif, "work", o.Prop, "sample")
	os.MkdirAll(work, 0o755)
	pkgDir, _ := filepath.Rel(o.Repo, filepath.Dir(fi.File))
	for n := 1; n <= 4; n++ {
		var b strings.Builder
		b.WriteString("(set-option :produce-models true)\n(set-option :smt.random_seed " + fmt.Sprint(n*7+1) + ")\n")
		b.WriteString(w.Preamble(true))
		for i := 0; i < req.FactsN && i < len(w.Facts); i++ {
			b.WriteString("(assert " + w.Facts[i] + ")\n")
		}
		firstSeq := true
		for _, e := range ents {
			if w.IsSeq(e.nt.Term.Sort) {
				if firstSeq && e.nt.CT == "" {
					b.WriteString(fmt.Sprintf("(assert (= %s %d))\n", w.SeqLen(e.nt.Term).S, n))
					firstSeq = false
				} else {
					b.WriteString(fmt.Sprintf("(assert (<= %s %d))\n", w.SeqLen(e.nt.Term).S, searchMaxLen))
				}
				b.WriteString(fmt.Sprintf("(assert (= %s 0))\n", w.SeqOff(e.nt.Term).S))
			}
		}
		b.WriteString("(assert " + req.PC + ")\n(check-sat)\n(get-value (" + strings.Join(dedupe(terms), " ") + "))\n")
		file := filepath.Join(work, fmt.Sprintf("%s_%d.smt2", sanitize(fc.Key()), n))
		os.WriteFile(file, []byte(b.String()), 0o644)
		r, out, _ := runSolver(solvers[0], file, 10*time.Second)
		if r != "sat" {
			continue
		}
		vals := parseGetValue(out)
		var decls []string
		ok := true
		for _, e := range ents {
			lit, good := e.plan.render(vals)
			if !good {
				ok = false
				break
			}
			decls = append(decls, fmt.Sprintf("\t%s := %s", goName(e.nt.Name), lit))
		}
		if !ok {
			continue
		}
		g2 := &goGen{p: p, pkg: fi.Pkg.Name, specs: map[string]bool{}, imports: map[string]string{"testing": "testing", "fmt": "fmt"}}
		for _, e := range ents { // re-register type imports
			g2.typeName(e.nt.GoT)
		}
		test, _ := g2.buildTest(fi, fc, su, decls)
		if test == "" || g2.nChecked == 0 {
			skipped++
			return
		}
		tf := filepath.Join(work, "zz_gocv_replay_test.go")
		os.WriteFile(tf, []byte(test), 0o644)
		failed, output := RunOverlayTest(o.Repo, o.Verif, pkgDir, tf, "TestGocvReplay", "gocv_sample")
		run++
		switch {
		case strings.Contains(output, "GOCV-REPLAY: PANIC") && fc.Flags["nosafety"]:
			// the unit claims no safety obligations (nil/bounds preconditions are not part of its contract):
			// a sampled input that panics tells nothing about the claimed postconditions; not counted
			run--
		case strings.Contains(output, "GOCV-REPLAY: VIOLATED") || strings.Contains(output, "GOCV-REPLAY: PANIC"):
			failures = append(failures, fmt.Sprintf("%s with %s: %s", fc.Key(), strings.Join(decls, ";"), trimLong(output, 300)))
		case strings.Contains(output, "GOCV-REPLAY: PRECONDITION"):
			// the solver model does not satisfy the compiled precondition: windowed quantifiers/real sampling differ; not counted
			run--
		case failed:
			run--
			skipped++
			return
		default:
			passed++
		}
	}
	return
}
