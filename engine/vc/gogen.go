package vc

import (
	"fmt"
	"go/types"
	"sort"
	"strings"
)

// Second back end for contract expressions: Go source, used only to REPLAY a counterexample on the real code
// (the compiled post-condition is evaluated on the real function's real results).  Integers are Go int, reals
// float64 (compared with a relative tolerance), quantifiers range over a finite window that covers every index of the
// (small) replayed sequences.  Anything it cannot express makes the replay "not-replayable", never "confirmed".

type goVal struct {
	code string
	cls  string // I int, R real, B bool, S sequence, V other Go value
	elem string // for S: class of elements (I,R,B,V,S)
	goT  types.Type
}

type goGen struct {
	p       *Program
	pkg     string // package the test lives in
	specs   map[string]bool
	out     []string // helper function definitions
	imports map[string]string
	needValEq bool
	fail    string
	qn      int
	nChecked int
}

const qLo, qHi = -2, 24

func (g *goGen) bad(f string, a ...interface{}) goVal {
	if g.fail == "" {
		g.fail = fmt.Sprintf(f, a...)
	}
	return goVal{code: "false", cls: "B"}
}

func clsOfGoType(t types.Type) (string, string) {
	if t == nil {
		return "V", ""
	}
	switch u := t.Underlying().(type) {
	case *types.Basic:
		switch {
		case u.Info()&types.IsBoolean != 0:
			return "B", ""
		case u.Info()&types.IsInteger != 0:
			return "I", ""
		case u.Info()&types.IsFloat != 0:
			return "R", ""
		case u.Info()&types.IsString != 0:
			return "S", "I"
		}
	case *types.Slice:
		c, _ := clsOfGoType(u.Elem())
		return "S", c
	case *types.Array:
		c, _ := clsOfGoType(u.Elem())
		return "S", c
	case *types.Pointer:
		return clsOfGoType(u.Elem())
	}
	return "V", ""
}

func (g *goGen) typeName(t types.Type) string {
	return types.TypeString(t, func(p *types.Package) string {
		if p.Name() == g.pkg {
			return ""
		}
		g.imports[p.Path()] = p.Name()
		return p.Name()
	})
}

// asInt converts an indexed/field read of Go integer kind to int.
func wrapRead(code string, t types.Type) goVal {
	c, e := clsOfGoType(t)
	switch c {
	case "I":
		return goVal{code: "int(" + code + ")", cls: "I", goT: t}
	case "R":
		return goVal{code: "float64(" + code + ")", cls: "R", goT: t}
	}
	return goVal{code: code, cls: c, elem: e, goT: t}
}

type goScope struct {
	vars map[string]goVal
	old  map[string]goVal
	inOld bool
}

func (s *goScope) child() *goScope {
	n := &goScope{vars: map[string]goVal{}, old: s.old, inOld: s.inOld}
	for k, v := range s.vars {
		n.vars[k] = v
	}
	return n
}

func (g *goGen) expr(e Expr, sc *goScope) goVal {
	switch e := e.(type) {
	case ELit:
		switch e.Kind {
		case "int":
			return goVal{code: e.Val, cls: "I"}
		case "real":
			return goVal{code: "float64(" + e.Val + ")", cls: "R"}
		case "bool":
			return goVal{code: e.Val, cls: "B"}
		case "string":
			return goVal{code: fmt.Sprintf("%q", e.Val), cls: "S", elem: "I", goT: types.Typ[types.String]}
		}
	case EIdent:
		if sc.inOld {
			if v, ok := sc.old[e.Name]; ok {
				return v
			}
		}
		if v, ok := sc.vars[e.Name]; ok {
			return v
		}
		// package constant
		if pk := g.p.ByName[g.pkg]; pk != nil {
			if obj := pk.Types.Scope().Lookup(e.Name); obj != nil {
				if _, ok := obj.(*types.Const); ok {
					return wrapRead(e.Name, obj.Type())
				}
			}
		}
		return g.bad("unknown name %s", e.Name)
	case EOld:
		n := sc.child()
		n.inOld = true
		return g.expr(e.X, n)
	case EEntry:
		return g.bad("entry() in a replayed clause")
	case EUn:
		v := g.expr(e.X, sc)
		if e.Op == "!" {
			return goVal{code: "!(" + v.code + ")", cls: "B"}
		}
		return goVal{code: "(-(" + v.code + "))", cls: v.cls}
	case EBin:
		switch e.Op {
		case "&&", "||":
			l, r := g.expr(e.L, sc), g.expr(e.R, sc)
			return goVal{code: "(" + l.code + " " + e.Op + " " + r.code + ")", cls: "B"}
		case "==>":
			l, r := g.expr(e.L, sc), g.expr(e.R, sc)
			return goVal{code: "(!(" + l.code + ") || (" + r.code + "))", cls: "B"}
		case "<==>":
			l, r := g.expr(e.L, sc), g.expr(e.R, sc)
			return goVal{code: "((" + l.code + ") == (" + r.code + "))", cls: "B"}
		}
		l, r := g.expr(e.L, sc), g.expr(e.R, sc)
		if l.cls == "I" && r.cls == "R" {
			l = goVal{code: "float64(" + l.code + ")", cls: "R"}
		}
		if l.cls == "R" && r.cls == "I" {
			r = goVal{code: "float64(" + r.code + ")", cls: "R"}
		}
		switch e.Op {
		case "==", "!=":
			var eq string
			switch {
			case l.cls == "R":
				eq = "gocvReq(" + l.code + ", " + r.code + ")"
			case l.cls == "S":
				eq = "gocvSeqEq(" + l.code + ", " + r.code + ")"
			case l.cls == "V":
				eq = "gocvValEq(" + l.code + ", " + r.code + ")"
				g.imports["reflect"] = "reflect"
				g.needValEq = true
			default:
				eq = "(" + l.code + " == " + r.code + ")"
			}
			if e.Op == "!=" {
				eq = "!" + eq
			}
			return goVal{code: eq, cls: "B"}
		case "<", "<=", ">", ">=":
			return goVal{code: "(" + l.code + " " + e.Op + " " + r.code + ")", cls: "B"}
		case "+", "-", "*":
			return goVal{code: "(" + l.code + " " + e.Op + " " + r.code + ")", cls: l.cls}
		case "/":
			if l.cls == "R" {
				return goVal{code: "(" + l.code + " / " + r.code + ")", cls: "R"}
			}
			return goVal{code: "gocvDiv(" + l.code + ", " + r.code + ")", cls: "I"}
		case "%":
			return goVal{code: "gocvMod(" + l.code + ", " + r.code + ")", cls: "I"}
		}
	case ECond:
		c, a, b := g.expr(e.C, sc), g.expr(e.A, sc), g.expr(e.B, sc)
		if a.cls == "I" && b.cls == "R" {
			a = goVal{code: "float64(" + a.code + ")", cls: "R"}
		}
		if a.cls == "R" && b.cls == "I" {
			b = goVal{code: "float64(" + b.code + ")", cls: "R"}
		}
		ty := g.goTypeOfCls(a)
		if ty == "" {
			return g.bad("conditional of unsupported type")
		}
		return goVal{code: fmt.Sprintf("func() %s { if %s { return %s }; return %s }()", ty, c.code, a.code, b.code), cls: a.cls, elem: a.elem, goT: a.goT}
	case ELet:
		v := g.expr(e.Val, sc)
		ty := g.goTypeOfCls(v)
		if ty == "" {
			return g.bad("let of unsupported type")
		}
		g.qn++
		name := fmt.Sprintf("%s_%d", sanitize(e.Name), g.qn)
		n := sc.child()
		n.vars[e.Name] = goVal{code: name, cls: v.cls, elem: v.elem, goT: v.goT}
		b := g.expr(e.Body, n)
		bty := g.goTypeOfCls(b)
		if bty == "" {
			return g.bad("let body of unsupported type")
		}
		return goVal{code: fmt.Sprintf("func() %s { %s := %s; _ = %s; return %s }()", bty, name, v.code, name, b.code), cls: b.cls, elem: b.elem, goT: b.goT}
	case EQuant:
		n := sc.child()
		var names []string
		for _, p := range e.Vars {
			g.qn++
			nm := fmt.Sprintf("%s_%d", sanitize(p.Name), g.qn)
			names = append(names, nm)
			switch p.Type {
			case "int", "byte", "uint8", "rune", "int64", "int32", "uint32":
				n.vars[p.Name] = goVal{code: nm, cls: "I"}
			case "real", "float64":
				// sampled: a failing sample refutes a forall; (an exists over reals is not decided by sampling)
				if !e.Forall {
					return g.bad("existential over reals cannot be replayed")
				}
				n.vars[p.Name] = goVal{code: nm, cls: "R"}
				names[len(names)-1] = "R:" + nm
			default:
				return g.bad("quantifier over %s cannot be replayed", p.Type)
			}
		}
		body := g.expr(e.Body, n)
		var b strings.Builder
		b.WriteString("func() bool { ")
		for _, nm := range names {
			if strings.HasPrefix(nm, "R:") {
				fmt.Fprintf(&b, "for _, %s := range []float64{0, 1, -1, 2, 0.5, -3.25, 7, 100} { ", nm[2:])
				continue
			}
			fmt.Fprintf(&b, "for %s := %d; %s <= %d; %s++ { ", nm, qLo, nm, qHi, nm)
		}
		if e.Forall {
			fmt.Fprintf(&b, "if !(%s) { return false } ", body.code)
		} else {
			fmt.Fprintf(&b, "if %s { return true } ", body.code)
		}
		for range names {
			b.WriteString("}; ")
		}
		if e.Forall {
			b.WriteString("return true }()")
		} else {
			b.WriteString("return false }()")
		}
		return goVal{code: b.String(), cls: "B"}
	case EIndex:
		x, i := g.expr(e.X, sc), g.expr(e.I, sc)
		if x.cls != "S" {
			return g.bad("index on non-sequence in replay")
		}
		var et types.Type
		if x.goT != nil {
			switch u := x.goT.Underlying().(type) {
			case *types.Slice:
				et = u.Elem()
			case *types.Array:
				et = u.Elem()
			case *types.Basic:
				et = types.Typ[types.Uint8]
			}
		}
		code := x.code + "[" + i.code + "]"
		if et != nil {
			return wrapRead(code, et)
		}
		switch x.elem {
		case "I":
			return goVal{code: "int(" + code + ")", cls: "I"}
		case "R":
			return goVal{code: "float64(" + code + ")", cls: "R"}
		}
		return goVal{code: code, cls: x.elem}
	case ESlice:
		x := g.expr(e.X, sc)
		lo, hi := "", ""
		if e.Lo != nil {
			lo = g.expr(e.Lo, sc).code
		}
		if e.Hi != nil {
			hi = g.expr(e.Hi, sc).code
		}
		return goVal{code: x.code + "[" + lo + ":" + hi + "]", cls: "S", elem: x.elem, goT: x.goT}
	case ESel:
		if id, ok := e.X.(EIdent); ok {
			if _, isVar := sc.vars[id.Name]; !isVar {
				if pk := g.p.ByName[id.Name]; pk != nil {
					if obj := pk.Types.Scope().Lookup(e.Name); obj != nil && obj.Exported() {
						g.imports[pk.PkgPath] = pk.Name
						return wrapRead(id.Name+"."+e.Name, obj.Type())
					}
					return g.bad("unexported %s.%s not reachable from the replay test", id.Name, e.Name)
				}
			}
		}
		x := g.expr(e.X, sc)
		if x.goT == nil {
			return g.bad("field %s of value without Go type", e.Name)
		}
		st, ok := derefType(x.goT).Underlying().(*types.Struct)
		if !ok {
			return g.bad("field %s of non-struct", e.Name)
		}
		for i := 0; i < st.NumFields(); i++ {
			if st.Field(i).Name() == e.Name {
				return wrapRead(x.code+"."+e.Name, st.Field(i).Type())
			}
		}
		return g.bad("no field %s", e.Name)
	case ECall:
		return g.call(e, sc)
	}
	return g.bad("expression %T cannot be replayed", e)
}

func (g *goGen) goTypeOfCls(v goVal) string {
	switch v.cls {
	case "I":
		return "int"
	case "R":
		return "float64"
	case "B":
		return "bool"
	}
	if v.goT != nil {
		return g.typeName(v.goT)
	}
	return ""
}

func (g *goGen) call(e ECall, sc *goScope) goVal {
	var name, pkg string
	switch f := e.Fun.(type) {
	case EIdent:
		name, pkg = f.Name, g.pkg
	case ESel:
		if id, ok := f.X.(EIdent); ok {
			if _, isVar := sc.vars[id.Name]; !isVar {
				name, pkg = f.Name, id.Name
			}
		}
		if name == "" {
			// method call on a value
			recv := g.expr(f.X, sc)
			var as []string
			for _, a := range e.Args {
				as = append(as, g.argFor(g.expr(a, sc)))
			}
			rt := g.methodResultType(recv.goT, f.Name)
			if rt == nil {
				return g.bad("method %s not found for replay", f.Name)
			}
			return wrapRead(recv.code+"."+f.Name+"("+strings.Join(as, ", ")+")", rt)
		}
	}
	args := func() []goVal {
		var as []goVal
		for _, a := range e.Args {
			as = append(as, g.expr(a, sc))
		}
		return as
	}
	if pkg == g.pkg || true {
		switch name {
		case "len":
			return goVal{code: "len(" + args()[0].code + ")", cls: "I"}
		case "int", "int64", "int32", "mathint":
			a := args()[0]
			if a.cls == "R" {
				return goVal{code: "int(" + a.code + ")", cls: "I"}
			}
			return a
		case "byte", "uint8":
			return goVal{code: "gocvMod(" + args()[0].code + ", 256)", cls: "I"}
		case "uint16":
			return goVal{code: "gocvMod(" + args()[0].code + ", 65536)", cls: "I"}
		case "uint32":
			return goVal{code: "gocvMod(" + args()[0].code + ", 4294967296)", cls: "I"}
		case "rune":
			return goVal{code: "int(int32(" + args()[0].code + "))", cls: "I"}
		case "real", "float64":
			return goVal{code: "float64(" + args()[0].code + ")", cls: "R"}
		case "abs":
			a := args()[0]
			if a.cls == "R" {
				return goVal{code: "gocvAbsR(" + a.code + ")", cls: "R"}
			}
			return goVal{code: "gocvAbsI(" + a.code + ")", cls: "I"}
		case "min", "max":
			as := args()
			if as[0].cls == "R" || as[1].cls == "R" {
				return goVal{code: fmt.Sprintf("gocv%sR(float64(%s), float64(%s))", name, as[0].code, as[1].code), cls: "R"}
			}
			return goVal{code: fmt.Sprintf("gocv%sI(%s, %s)", name, as[0].code, as[1].code), cls: "I"}
		case "div":
			as := args()
			return goVal{code: "gocvDiv(" + as[0].code + ", " + as[1].code + ")", cls: "I"}
		case "mod":
			as := args()
			return goVal{code: "gocvMod(" + as[0].code + ", " + as[1].code + ")", cls: "I"}
		case "gdiv":
			as := args()
			return goVal{code: "(" + as[0].code + " / " + as[1].code + ")", cls: "I"}
		case "same", "sameseq":
			as := args()
			if as[0].cls == "S" {
				return goVal{code: "gocvSeqEq(" + as[0].code + ", " + as[1].code + ")", cls: "B"}
			}
			g.imports["reflect"] = "reflect"
			g.needValEq = true
			return goVal{code: "gocvValEq(" + as[0].code + ", " + as[1].code + ")", cls: "B"}
		case "isnil":
			return goVal{code: "(" + args()[0].code + " == nil)", cls: "B"}
		case "weight":
			args()
			return goVal{code: "1", cls: "I"}
		case "zeros":
			return goVal{code: "make([]byte, " + args()[0].code + ")", cls: "S", elem: "I", goT: types.NewSlice(types.Typ[types.Uint8])}
		case "has":
			as := args()
			return goVal{code: "gocvHas(" + as[0].code + ", " + as[1].code + ")", cls: "B"}
		case "utf8enc":
			return goVal{code: "string(rune(" + args()[0].code + "))", cls: "S", elem: "I", goT: types.Typ[types.String]}
		case "off", "samebase":
			return g.bad("%s() (backing-array identity) cannot be replayed", name)
		}
	}
	if purePkgs[pkg] {
		// library function: called directly (the contract's uninterpreted function IS this function)
		var as []string
		for _, a := range args() {
			c := a.code
			if a.cls == "S" && a.goT != nil {
				if b, ok := a.goT.Underlying().(*types.Basic); !ok || b.Info()&types.IsString == 0 {
					c = "string(" + c + ")"
				}
			}
			as = append(as, c)
		}
		g.imports[pkg] = pkg[strings.LastIndex(pkg, "/")+1:]
		callee := pkg[strings.LastIndex(pkg, "/")+1:] + "." + name
		switch pkg + "." + name {
		case "strings.TrimSpace", "strings.ToLower", "strings.ToUpper", "strings.TrimPrefix", "strings.TrimSuffix":
			return goVal{code: callee + "(" + strings.Join(as, ", ") + ")", cls: "S", elem: "I", goT: types.Typ[types.String]}
		case "strings.Contains", "strings.HasPrefix", "strings.HasSuffix", "unicode.IsSpace":
			return goVal{code: callee + "(" + strings.Join(as, ", ") + ")", cls: "B"}
		case "strconv.Atoi":
			return goVal{code: "func() int { v, _ := " + callee + "(" + strings.Join(as, ", ") + "); return v }()", cls: "I"}
		}
		return g.bad("library function %s.%s cannot be replayed", pkg, name)
	}
	if sf := g.p.Contracts.Specs[name]; sf != nil {
		g.defineSpec(sf)
		var as []string
		for i, a := range args() {
			c := a.code
			if i < len(sf.Params) {
				switch sf.Params[i].Type {
				case "real", "float64":
					if a.cls == "I" {
						c = "float64(" + c + ")"
					}
				case "int", "byte", "mathint":
					c = "int(" + c + ")"
				}
			}
			as = append(as, c)
		}
		cls, elem, gt := g.clsOfContractType(sf.Ret, sf.Pkg)
		return goVal{code: "spec_" + sf.Name + "(" + strings.Join(as, ", ") + ")", cls: cls, elem: elem, goT: gt}
	}
	// real Go function
	key := pkg + "." + name
	if fi := g.p.Funcs[key]; fi != nil {
		if pkg != g.pkg && !fi.Decl.Name.IsExported() {
			return g.bad("unexported %s not callable from the replay test", key)
		}
		sig := fi.Obj.Type().(*types.Signature)
		var as []string
		for i, a := range args() {
			c := a.code
			if i < sig.Params().Len() {
				c = g.convertTo(a, sig.Params().At(i).Type())
			}
			as = append(as, c)
		}
		callee := name
		if pkg != g.pkg {
			g.imports[fi.Pkg.PkgPath] = fi.Pkg.Name
			callee = pkg + "." + name
		}
		if sig.Results().Len() != 1 {
			return g.bad("multi-result Go function %s in a replayed clause", key)
		}
		return wrapRead(callee+"("+strings.Join(as, ", ")+")", sig.Results().At(0).Type())
	}
	// method written as function of its receiver
	for k, fi := range g.p.Funcs {
		if strings.HasPrefix(k, pkg+".(") && strings.HasSuffix(k, ")."+name) && pkg == g.pkg {
			as := args()
			if len(as) == 0 {
				break
			}
			sig := fi.Obj.Type().(*types.Signature)
			recv := g.convertTo(as[0], sig.Recv().Type())
			var rest []string
			for i, a := range as[1:] {
				rest = append(rest, g.convertTo(a, sig.Params().At(i).Type()))
			}
			return wrapRead("("+recv+")."+name+"("+strings.Join(rest, ", ")+")", sig.Results().At(0).Type())
		}
	}
	if strings.HasPrefix(name, "fv_") {
		return g.bad("function-valued parameter %s cannot be replayed", name)
	}
	return g.bad("function %s cannot be replayed", key)
}

func (g *goGen) argFor(v goVal) string { return v.code }

// convertTo renders v as an argument of Go type t.
func (g *goGen) convertTo(v goVal, t types.Type) string {
	switch u := t.Underlying().(type) {
	case *types.Basic:
		if u.Info()&(types.IsInteger|types.IsFloat) != 0 {
			return g.typeName(t) + "(" + v.code + ")"
		}
	case *types.Pointer:
		if v.goT != nil {
			if _, isPtr := v.goT.Underlying().(*types.Pointer); !isPtr {
				return "&" + v.code
			}
		}
	}
	return v.code
}

func (g *goGen) methodResultType(recv types.Type, name string) types.Type {
	if recv == nil {
		return nil
	}
	ms := types.NewMethodSet(types.NewPointer(derefType(recv)))
	for i := 0; i < ms.Len(); i++ {
		if ms.At(i).Obj().Name() == name {
			sig := ms.At(i).Obj().Type().(*types.Signature)
			if sig.Results().Len() == 1 {
				return sig.Results().At(0).Type()
			}
		}
	}
	return nil
}

func (g *goGen) clsOfContractType(t, pkg string) (string, string, types.Type) {
	switch t {
	case "int", "int64", "int32", "uint32", "byte", "uint8", "rune", "mathint", "uint16":
		return "I", "", nil
	case "real", "float64":
		return "R", "", nil
	case "bool":
		return "B", "", nil
	case "string":
		return "S", "I", types.Typ[types.String]
	}
	if strings.HasPrefix(t, "[]") {
		c, _, et := g.clsOfContractType(t[2:], pkg)
		var gt types.Type
		switch t[2:] {
		case "byte", "uint8":
			gt = types.NewSlice(types.Typ[types.Uint8])
		case "int":
			gt = types.NewSlice(types.Typ[types.Int])
		case "float64", "real":
			gt = types.NewSlice(types.Typ[types.Float64])
		default:
			if et != nil {
				gt = types.NewSlice(et)
			}
		}
		return "S", c, gt
	}
	if strings.HasPrefix(t, "[") {
		k := strings.Index(t, "]")
		var n int64
		fmt.Sscanf(t[1:k], "%d", &n)
		c, _, _ := g.clsOfContractType(t[k+1:], pkg)
		var gt types.Type
		if t[k+1:] == "float64" || t[k+1:] == "real" {
			gt = types.NewArray(types.Typ[types.Float64], n)
		}
		return "S", c, gt
	}
	name := strings.TrimPrefix(t, "*")
	pn := pkg
	if i := strings.Index(name, "."); i >= 0 {
		pn, name = name[:i], name[i+1:]
	}
	if pk := g.p.ByName[pn]; pk != nil {
		if obj := pk.Types.Scope().Lookup(name); obj != nil {
			if tn, ok := obj.(*types.TypeName); ok {
				c, e := clsOfGoType(tn.Type())
				return c, e, tn.Type()
			}
		}
	}
	return "V", "", nil
}

func (g *goGen) goTypeOfContractType(t, pkg string) string {
	switch t {
	case "int", "int64", "int32", "uint32", "byte", "uint8", "rune", "mathint", "uint16":
		return "int"
	case "real", "float64":
		return "float64"
	case "bool":
		return "bool"
	case "string":
		return "string"
	case "[]byte":
		return "[]byte"
	case "[]int":
		return "[]int"
	}
	_, _, gt := g.clsOfContractType(t, pkg)
	if gt != nil {
		return g.typeName(gt)
	}
	return ""
}

func (g *goGen) defineSpec(sf *SpecFunc) {
	if g.specs[sf.Name] {
		return
	}
	g.specs[sf.Name] = true
	sc := &goScope{vars: map[string]goVal{}}
	var ps []string
	for _, p := range sf.Params {
		ty := g.goTypeOfContractType(p.Type, sf.Pkg)
		if ty == "" {
			g.bad("spec %s: parameter type %s cannot be replayed", sf.Name, p.Type)
			return
		}
		cls, elem, gt := g.clsOfContractType(p.Type, sf.Pkg)
		nm := "a_" + sanitize(p.Name)
		ps = append(ps, nm+" "+ty)
		sc.vars[p.Name] = goVal{code: nm, cls: cls, elem: elem, goT: gt}
	}
	rty := g.goTypeOfContractType(sf.Ret, sf.Pkg)
	body := g.expr(sf.Body, sc)
	code := body.code
	if rty == "float64" && body.cls == "I" {
		code = "float64(" + code + ")"
	}
	g.out = append(g.out, fmt.Sprintf("func spec_%s(%s) %s { return %s }", sf.Name, strings.Join(ps, ", "), rty, code))
}

// pointers are owned boxes in the model: equality is equality of the values behind them
const goValEqHelper = `
func gocvDeref(a interface{}) interface{} { v := reflect.ValueOf(a); for v.IsValid() && v.Kind() == reflect.Ptr && !v.IsNil() { v = v.Elem() }; if !v.IsValid() { return nil }; return v.Interface() }
func gocvValEq(a, b interface{}) bool { return reflect.DeepEqual(gocvDeref(a), gocvDeref(b)) }
`

const goHelpers = `
func gocvDiv(a, b int) int { if b == 0 { return 0 }; q := a / b; if (a%b != 0) && ((a < 0) != (b < 0)) { q-- }; return q }
func gocvMod(a, b int) int { if b == 0 { return 0 }; m := a % b; if m < 0 { if b > 0 { m += b } else { m -= b } }; return m }
func gocvAbsI(a int) int { if a < 0 { return -a }; return a }
func gocvAbsR(a float64) float64 { if a < 0 { return -a }; return a }
func gocvminI(a, b int) int { if a < b { return a }; return b }
func gocvmaxI(a, b int) int { if a > b { return a }; return b }
func gocvminR(a, b float64) float64 { if a < b { return a }; return b }
func gocvmaxR(a, b float64) float64 { if a > b { return a }; return b }
func gocvReq(a, b float64) bool { d := a - b; if d < 0 { d = -d }; m := gocvAbsR(a); if gocvAbsR(b) > m { m = gocvAbsR(b) }; return d <= 1e-9*(1+m) }
func gocvSeqEq(a, b interface{}) bool { return fmt.Sprint(a) == fmt.Sprint(b) && gocvLen(a) == gocvLen(b) }
func gocvLen(a interface{}) int { switch v := a.(type) { case string: return len(v); case []byte: return len(v); case []int: return len(v) }; return -1 }
func gocvHas(m interface{}, k interface{}) bool { return false }
`

func sortedImports(m map[string]string) []string {
	var ks []string
	for k := range m {
		ks = append(ks, k)
	}
	sort.Strings(ks)
	return ks
}
