export GOFLAGS=-mod=vendor
export GOPROXY=off
export GOSUMDB=off
export GOTOOLCHAIN=local

build:
	cd engine && go build -o ../bin/gocv ./cmd/gocv
