#!/bin/sh
# usage: check.sh <property> <tier>
cd "$(dirname "$0")" || exit 2
export GOPROXY=off GOSUMDB=off GOTOOLCHAIN=local
[ -x bin/gocv ] || make -s build || exit 2
exec bin/gocv check --property "$1" --tier "${2:-quick}" --verif "$(pwd)"
