package tabula

import (
	"fmt"
	"os"
	"testing"
)

// the root /Pages /Count was trusted as the page count: /Count 4611686018427387904 in a 340-byte PDF made
// Open(p).Fragments() panic with "makeslice: len out of range" (resolvePages sizes a slice by it); /Count 50000000
// allocated 381 MB before failing
func TestClaimedPageCount(t *testing.T) {
	pdf := "%PDF-1.4\n1 0 obj\n<< /Type /Catalog /Pages 2 0 R >>\nendobj\n2 0 obj\n<< /Type /Pages /Kids [3 0 R] /Count 4611686018427387904 >>\nendobj\n3 0 obj\n<< /Type /Page /Parent 2 0 R /MediaBox [0 0 612 792] >>\nendobj\n"
	off := len(pdf)
	pdf += "xref\n0 4\n0000000000 65535 f \n0000000009 00000 n \n0000000058 00000 n \n0000000133 00000 n \ntrailer\n<< /Size 4 /Root 1 0 R >>\nstartxref\n" + fmt.Sprint(off) + "\n%%EOF\n"
	p := t.TempDir() + "/a.pdf"
	if err := os.WriteFile(p, []byte(pdf), 0o644); err != nil {
		t.Fatal(err)
	}
	n, err := Open(p).PageCount()
	if err != nil || n != 1 {
		t.Fatalf("PageCount = %d, %v; the file has one page leaf", n, err)
	}
	if _, _, err := Open(p).Fragments(); err != nil {
		t.Fatalf("Fragments: %v", err)
	}
}
