package pptx

// Known-finding witness (C18): a presentation whose slide list (p:sldIdLst) names slide2.xml before slide1.xml
// must present "Second file" first.  Fails on the pinned tree: slides are ordered by file name.

import (
	"archive/zip"
	"os"
	"path/filepath"
	"strings"
	"testing"
)

func TestKF_C18_PptxSlideOrder(t *testing.T) {
	dir := t.TempDir()
	name := filepath.Join(dir, "order.pptx")
	f, err := os.Create(name)
	if err != nil {
		t.Fatal(err)
	}
	zw := zip.NewWriter(f)
	w := func(n, c string) {
		fw, err := zw.Create(n)
		if err != nil {
			t.Fatal(err)
		}
		fw.Write([]byte(c))
	}
	w("[Content_Types].xml", `<?xml version="1.0" encoding="UTF-8"?><Types xmlns="http://schemas.openxmlformats.org/package/2006/content-types"><Default Extension="rels" ContentType="application/vnd.openxmlformats-package.relationships+xml"/><Default Extension="xml" ContentType="application/xml"/></Types>`)
	w("_rels/.rels", `<?xml version="1.0"?><Relationships xmlns="http://schemas.openxmlformats.org/package/2006/relationships"><Relationship Id="rId1" Type="http://schemas.openxmlformats.org/officeDocument/2006/relationships/officeDocument" Target="ppt/presentation.xml"/></Relationships>`)
	w("ppt/_rels/presentation.xml.rels", `<?xml version="1.0"?><Relationships xmlns="http://schemas.openxmlformats.org/package/2006/relationships"><Relationship Id="rId1" Type="http://schemas.openxmlformats.org/officeDocument/2006/relationships/slide" Target="slides/slide1.xml"/><Relationship Id="rId2" Type="http://schemas.openxmlformats.org/officeDocument/2006/relationships/slide" Target="slides/slide2.xml"/></Relationships>`)
	// declared order: rId2 (slide2.xml) first, then rId1 (slide1.xml)
	w("ppt/presentation.xml", `<?xml version="1.0"?><p:presentation xmlns:p="http://schemas.openxmlformats.org/presentationml/2006/main" xmlns:r="http://schemas.openxmlformats.org/officeDocument/2006/relationships"><p:sldIdLst><p:sldId id="256" r:id="rId2"/><p:sldId id="257" r:id="rId1"/></p:sldIdLst></p:presentation>`)
	slide := func(text string) string {
		return `<?xml version="1.0"?><p:sld xmlns:p="http://schemas.openxmlformats.org/presentationml/2006/main" xmlns:a="http://schemas.openxmlformats.org/drawingml/2006/main"><p:cSld><p:spTree><p:nvGrpSpPr><p:cNvPr id="1" name=""/></p:nvGrpSpPr><p:sp><p:nvSpPr><p:cNvPr id="2" name="Title"/><p:nvPr><p:ph type="title"/></p:nvPr></p:nvSpPr><p:spPr/><p:txBody><a:bodyPr/><a:p><a:r><a:t>` + text + `</a:t></a:r></a:p></p:txBody></p:sp></p:spTree></p:cSld></p:sld>`
	}
	w("ppt/slides/slide1.xml", slide("First file"))
	w("ppt/slides/slide2.xml", slide("Second file"))
	zw.Close()
	f.Close()

	r, err := Open(name)
	if err != nil {
		t.Fatal(err)
	}
	defer r.Close()
	text, err := r.Text()
	if err != nil {
		t.Fatal(err)
	}
	i1, i2 := strings.Index(text, "First file"), strings.Index(text, "Second file")
	if i1 < 0 || i2 < 0 {
		t.Fatalf("slide texts missing: %q", text)
	}
	if i2 > i1 {
		t.Fatalf("declared order is slide2.xml, slide1.xml but the text presents %q", text)
	}
}
