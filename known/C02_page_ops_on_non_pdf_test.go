package tabula

import "testing"

// Lines/Fragments/Paragraphs/... on a DOCX used to panic with a nil-pointer dereference (resolvePages used the nil PDF reader)
func TestPageOperationsOnNonPDF(t *testing.T) {
	if _, err := Open("docx/testdata/hills.docx").Pages(1).Lines(); err == nil {
		t.Fatal("Lines on a DOCX returned no error")
	}
	if _, _, err := Open("docx/testdata/hills.docx").Fragments(); err == nil {
		t.Fatal("Fragments on a DOCX returned no error")
	}
	if _, err := Open("docx/testdata/hills.docx").Paragraphs(); err == nil {
		t.Fatal("Paragraphs on a DOCX returned no error")
	}
}
