package tabula

import (
	"testing"

	"github.com/tsawler/tabula/text"
)

// positions from the content stream were turned into padding without a bound: one fragment at X=7.2e8 gave a 100 MB
// string, two fragments 1.2e9 points apart vertically 100 million newlines
func TestPreserveLayoutPaddingIsBounded(t *testing.T) {
	e := &Extractor{}
	out := e.extractPreserveLayout([]text.TextFragment{
		{Text: "a", X: 72, Y: 700, Width: 6, Height: 12, FontSize: 12},
		{Text: "b", X: 7.2e8, Y: 700, Width: 6, Height: 12, FontSize: 12},
		{Text: "c", X: 72, Y: -1.2e9, Width: 6, Height: 12, FontSize: 12},
	}, 612)
	if len(out) > 1<<16 {
		t.Fatalf("%d bytes of layout for three one-letter fragments", len(out))
	}
}
