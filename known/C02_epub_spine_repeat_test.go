package epubdoc

import (
	"archive/zip"
	"bytes"
	"fmt"
	"strings"
	"testing"
)

// loadChapters read (and HTML-parsed for the title) a fresh copy of the content document for every spine itemref, even
// when they all name the same manifest item: a 5 KB EPUB with one 4 MB XHTML and 200 itemrefs held 800 MB (reported and
// measured by a round-11 seeding agent).  The bytes are shared now.
func TestSpineRepeatsShareContent(t *testing.T) {
	var buf bytes.Buffer
	zw := zip.NewWriter(&buf)
	add := func(name, body string) {
		w, _ := zw.Create(name)
		w.Write([]byte(body))
	}
	add("mimetype", "application/epub+zip")
	add("META-INF/container.xml", `<?xml version="1.0"?><container version="1.0" xmlns="urn:oasis:names:tc:opendocument:xmlns:container"><rootfiles><rootfile full-path="content.opf" media-type="application/oebps-package+xml"/></rootfiles></container>`)
	var spine strings.Builder
	for i := 0; i < 50; i++ {
		spine.WriteString(`<itemref idref="a"/>`)
	}
	add("content.opf", `<?xml version="1.0"?><package xmlns="http://www.idpf.org/2007/opf" version="3.0"><metadata xmlns:dc="http://purl.org/dc/elements/1.1/"><dc:title>t</dc:title></metadata><manifest><item id="a" href="a.xhtml" media-type="application/xhtml+xml"/></manifest><spine>`+spine.String()+`</spine></package>`)
	add("a.xhtml", `<html><head><title>T</title></head><body><p>`+strings.Repeat("x", 1<<20)+`</p></body></html>`)
	zw.Close()
	r, err := OpenReader(bytes.NewReader(buf.Bytes()), int64(buf.Len()))
	if err != nil {
		t.Fatal(err)
	}
	defer r.Close()
	if len(r.chapters) != 50 {
		t.Fatalf("%d chapters, want one per itemref (50)", len(r.chapters))
	}
	for i, c := range r.chapters {
		if c.Index != i || c.Title != "T" || len(c.Content) == 0 {
			t.Fatalf("chapter %d: %+v", i, fmt.Sprint(c.Index, c.Title, len(c.Content)))
		}
		if &c.Content[0] != &r.chapters[0].Content[0] {
			t.Fatalf("chapter %d holds its own copy of the content document", i)
		}
	}
}
