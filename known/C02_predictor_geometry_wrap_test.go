package filters

import "testing"

func TestPredictorGeometryWrap(t *testing.T) {
	for _, pred := range []int{2, 12} {
		out, err := applyPredictor([]byte{1, 2, 3, 4, 5, 6}, Params{"Predictor": pred, "Columns": 3, "Colors": 6148914691236517205})
		if err == nil {
			t.Fatalf("predictor %d: wrapped geometry accepted: %v", pred, out)
		}
	}
}
