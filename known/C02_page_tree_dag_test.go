package reader

import (
	"bytes"
	"fmt"
	"os"
	"path/filepath"
	"testing"
)

// a page tree in which every /Pages node lists the next one twice is flattened into 2^n page leaves: n = 30 (a 2.9 KB
// file) asks for about 77 GB; only cycles were refused (reported and measured by a round-11 seeding agent: n=20 75 MB)
func TestPageTreeSharedNodes(t *testing.T) {
	build := func(objs []string) string {
		var b bytes.Buffer
		b.WriteString("%PDF-1.4\n")
		offs := make([]int, len(objs))
		for i, o := range objs {
			offs[i] = b.Len()
			fmt.Fprintf(&b, "%d 0 obj\n%s\nendobj\n", i+1, o)
		}
		x := b.Len()
		fmt.Fprintf(&b, "xref\n0 %d\n0000000000 65535 f \n", len(objs)+1)
		for _, o := range offs {
			fmt.Fprintf(&b, "%010d 00000 n \n", o)
		}
		fmt.Fprintf(&b, "trailer\n<< /Size %d /Root 1 0 R >>\nstartxref\n%d\n%%%%EOF\n", len(objs)+1, x)
		p := filepath.Join(t.TempDir(), "x.pdf")
		if err := os.WriteFile(p, b.Bytes(), 0o600); err != nil {
			t.Fatal(err)
		}
		return p
	}
	const n = 40
	objs := []string{"<< /Type /Catalog /Pages 2 0 R >>"}
	for k := 0; k < n; k++ {
		objs = append(objs, fmt.Sprintf("<< /Type /Pages /Count 1 /Kids [ %d 0 R %d 0 R ] >>", k+3, k+3))
	}
	objs = append(objs, "<< /Type /Page /MediaBox [0 0 10 10] >>")
	r, err := Open(build(objs))
	if err != nil {
		t.Fatal(err)
	}
	if c, err := r.PageCount(); err == nil {
		t.Fatalf("a page tree with shared intermediate nodes was flattened into %d pages", c)
	}
	r.Close()
	// a leaf may be listed twice (the same page shown twice costs one reference per occurrence)
	r, err = Open(build([]string{"<< /Type /Catalog /Pages 2 0 R >>", "<< /Type /Pages /Count 2 /Kids [ 3 0 R 3 0 R ] >>", "<< /Type /Page /MediaBox [0 0 10 10] >>"}))
	if err != nil {
		t.Fatal(err)
	}
	defer r.Close()
	if c, err := r.PageCount(); err != nil || c != 2 {
		t.Fatalf("repeated leaf: %d pages, %v", c, err)
	}
}
