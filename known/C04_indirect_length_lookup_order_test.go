package reader

import (
	"bytes"
	"fmt"
	"os"
	"path/filepath"
	"testing"
)

// the value of an object must not depend on what was looked up before: a stream whose /Length is an indirect reference
// is resolved while the outer parser holds a 4096-byte buffer of the shared file; the nested lookup moved the file offset,
// so a 10000-byte stream failed on a fresh reader ("expected 10000 bytes, got 4061") and succeeded once the length object
// was cached (reported by two seeding agents, rounds 9 and 10)
func TestIndirectLengthDoesNotDependOnLookupOrder(t *testing.T) {
	var b bytes.Buffer
	off := map[int]int{}
	b.WriteString("%PDF-1.4\n")
	off[1] = b.Len()
	b.WriteString("1 0 obj\n<< /Type /Catalog /Pages 2 0 R >>\nendobj\n")
	off[2] = b.Len()
	b.WriteString("2 0 obj\n<< /Type /Pages /Kids [] /Count 0 >>\nendobj\n")
	off[3] = b.Len()
	b.WriteString("3 0 obj\n<< /Length 4 0 R >>\nstream\n")
	payload := bytes.Repeat([]byte("0123456789"), 1000)
	b.Write(payload)
	b.WriteString("\nendstream\nendobj\n")
	off[4] = b.Len()
	b.WriteString("4 0 obj\n10000\nendobj\n")
	xref := b.Len()
	b.WriteString("xref\n0 5\n0000000000 65535 f \n")
	for i := 1; i <= 4; i++ {
		fmt.Fprintf(&b, "%010d 00000 n \n", off[i])
	}
	fmt.Fprintf(&b, "trailer\n<< /Size 5 /Root 1 0 R >>\nstartxref\n%d\n%%%%EOF\n", xref)
	path := filepath.Join(t.TempDir(), "l.pdf")
	if err := os.WriteFile(path, b.Bytes(), 0o600); err != nil {
		t.Fatal(err)
	}
	for _, first := range []int{3, 4} {
		r, err := Open(path)
		if err != nil {
			t.Fatal(err)
		}
		if first == 4 {
			if _, err := r.GetObject(4); err != nil {
				t.Fatal(err)
			}
		}
		_, err = r.GetObject(3)
		if err != nil {
			r.Close()
			t.Fatalf("GetObject(3) with object %d looked up first: %v", first, err)
		}
		r.Close()
	}
}
