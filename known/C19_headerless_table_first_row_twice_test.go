package htmldoc

// Known-finding witness (C19/C15): ParsedTable.ToMarkdown writes the first row of a table WITHOUT a header row twice
// (once as the Markdown header line and again as a data row), so its text is returned twice.

import (
	"strings"
	"testing"
)

func TestKF_C19_HeaderlessTableFirstRowTwice(t *testing.T) {
	r, err := OpenReader(strings.NewReader(`<html><body><table><tr><td>A1</td><td>B1</td></tr><tr><td>A2</td><td>B2</td></tr></table></body></html>`))
	if err != nil {
		t.Fatal(err)
	}
	md, err := r.Markdown()
	if err != nil {
		t.Fatal(err)
	}
	if n := strings.Count(md, "A1"); n != 1 {
		t.Fatalf("cell text A1 occurs %d times in the Markdown:\n%s", n, md)
	}
}
