package core

import (
	"strings"
	"testing"
)

// 12 MB of '[' used to abort the process with "fatal error: stack overflow" (not recoverable)
func TestParserNestingDepth(t *testing.T) {
	for _, open := range []string{"[", "<</a"} {
		_, err := NewParser(strings.NewReader(strings.Repeat(open, 3000000))).ParseObject()
		if err == nil {
			t.Fatalf("deep nesting of %q accepted", open)
		}
	}
	// moderate nesting still parses
	obj, err := NewParser(strings.NewReader(strings.Repeat("[", 500) + "1" + strings.Repeat("]", 500))).ParseObject()
	if err != nil || obj == nil {
		t.Fatalf("500 levels refused: %v", err)
	}
}
