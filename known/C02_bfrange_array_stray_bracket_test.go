package font

import "testing"

// a ']' before the '[' of a bfrange array line used to panic with "slice bounds out of range [13:5]"
func TestBfRangeArrayStrayBracket(t *testing.T) {
	cm, err := parseCMapData([]byte("1 beginbfrange\n<01> ] <02> [<0041>\nendbfrange\n"))
	_ = cm
	_ = err
}
