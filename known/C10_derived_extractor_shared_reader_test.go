package tabula

import (
	"fmt"
	"os"
	"testing"
)

// ext.PageCount() opens the reader; a terminal operation on an extractor derived from ext used to close that shared
// reader (clone copied the ownership flag), after which ext.Close() failed with "file already closed"
func TestDerivedExtractorDoesNotCloseParentReader(t *testing.T) {
	pdf := "%PDF-1.4\n1 0 obj\n<< /Type /Catalog /Pages 2 0 R >>\nendobj\n2 0 obj\n<< /Type /Pages /Kids [3 0 R] /Count 1 >>\nendobj\n3 0 obj\n<< /Type /Page /Parent 2 0 R /MediaBox [0 0 612 792] >>\nendobj\n"
	off := len(pdf)
	pdf += "xref\n0 4\n0000000000 65535 f \n0000000009 00000 n \n0000000058 00000 n \n0000000115 00000 n \ntrailer\n<< /Size 4 /Root 1 0 R >>\nstartxref\n" + fmt.Sprint(off) + "\n%%EOF\n"
	p := t.TempDir() + "/a.pdf"
	if err := os.WriteFile(p, []byte(pdf), 0o644); err != nil {
		t.Fatal(err)
	}
	ext := Open(p)
	if _, err := ext.PageCount(); err != nil {
		t.Fatal(err)
	}
	if _, _, err := ext.Pages(1).Text(); err != nil {
		t.Fatal(err)
	}
	if err := ext.Close(); err != nil {
		t.Fatalf("closing the parent after a derived terminal operation: %v", err)
	}
	if err := ext.Close(); err != nil {
		t.Fatalf("closing again: %v", err)
	}
}
