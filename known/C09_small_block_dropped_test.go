package layout

// Known-finding witness (C09): BlockDetector.validateBlocks drops every block whose bounding box is smaller than
// MinBlockWidth x MinBlockHeight: the text of a small isolated block (a lone page number, a bullet) is in no block.

import (
	"testing"

	"github.com/tsawler/tabula/text"
)

func TestKF_C09_SmallBlockDropped(t *testing.T) {
	frags := []text.TextFragment{
		{Text: "A normal block of text", X: 72, Y: 700, Width: 200, Height: 12, FontSize: 12},
		{Text: "7", X: 300, Y: 400, Width: 4, Height: 4, FontSize: 4},
		{Text: "Another normal block", X: 72, Y: 100, Width: 180, Height: 12, FontSize: 12},
	}
	layout := NewBlockDetector().Detect(frags, 612, 792)
	n := 0
	for _, b := range layout.Blocks {
		n += len(b.Fragments)
	}
	if n != len(frags) {
		t.Fatalf("%d fragments in, %d fragments in the detected blocks", len(frags), n)
	}
}
