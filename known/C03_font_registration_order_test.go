package text

import (
	"testing"

	"github.com/tsawler/tabula/core"
)

// RegisterFontsFromResources enters every font under its name and under "/"+name while ranging over a Go map: with the
// resource names "F1" and "/F1" (written /#2FF1 in the file) the entry "/F1" was whichever font the map happened to
// yield last - the same page extracted twice selected different fonts (reported by a round-13 seeding agent: 174 vs 26
// of 200 runs).  The names are registered in sorted order now.
func TestFontRegistrationOrder(t *testing.T) {
	font := func(base string) core.Dict {
		return core.Dict{"Type": core.Name("Font"), "Subtype": core.Name("Type1"), "BaseFont": core.Name(base)}
	}
	res := core.Dict{"Font": core.Dict{"F1": font("Helvetica"), "/F1": font("Courier")}}
	first := ""
	for i := 0; i < 200; i++ {
		e := NewExtractor()
		if err := e.RegisterFontsFromResources(res, nil); err != nil {
			t.Fatal(err)
		}
		f := e.fonts["/F1"]
		if f == nil {
			t.Fatal("no font registered under /F1")
		}
		if first == "" {
			first = f.BaseFont
		} else if f.BaseFont != first {
			t.Fatalf("run %d selects %s for /F1, an earlier run selected %s", i, f.BaseFont, first)
		}
	}
}
