package pptx

import "testing"

// a:pPr/@lvl used to be taken as it stands and every renderer writes two spaces per level:
// lvl="100000000" in a 700-byte deck produced a 200 MB string
func TestParagraphLevelFromFile(t *testing.T) {
	r := &Reader{}
	p := r.extractParagraph(&pXML{PPr: &pPrXML{Lvl: 100000000}})
	if p.Level < 0 || p.Level > 8 {
		t.Fatalf("level %d taken from the file", p.Level)
	}
	if q := r.extractParagraph(&pXML{PPr: &pPrXML{Lvl: 3}}); q.Level != 3 {
		t.Fatalf("level 3 became %d", q.Level)
	}
}
