package reader

import (
	"bytes"
	"fmt"
	"os"
	"path/filepath"
	"testing"
	"time"

	"github.com/tsawler/tabula/core"
)

// ResolveDeep copied a shared object once per PATH that reaches it: objects of the form k 0 obj [k+1 0 R k+1 0 R] cost
// 2^n (n=22: 0.9 s and 224 MB from a 1354-byte file, quadrupling per two more objects; reported and measured by a
// round-11 seeding agent).  Each indirect object is expanded once per call now.
func TestResolveDeepSharedObjects(t *testing.T) {
	const n = 60
	var b bytes.Buffer
	b.WriteString("%PDF-1.4\n")
	objs := []string{"<< /Type /Catalog /Pages 2 0 R >>", "<< /Type /Pages /Kids [] /Count 0 >>"}
	for k := 0; k < n; k++ {
		objs = append(objs, fmt.Sprintf("[ %d 0 R %d 0 R ]", k+4, k+4))
	}
	objs = append(objs, "(leaf)")
	offs := make([]int, len(objs))
	for i, o := range objs {
		offs[i] = b.Len()
		fmt.Fprintf(&b, "%d 0 obj\n%s\nendobj\n", i+1, o)
	}
	x := b.Len()
	fmt.Fprintf(&b, "xref\n0 %d\n0000000000 65535 f \n", len(objs)+1)
	for _, o := range offs {
		fmt.Fprintf(&b, "%010d 00000 n \n", o)
	}
	fmt.Fprintf(&b, "trailer\n<< /Size %d /Root 1 0 R >>\nstartxref\n%d\n%%%%EOF\n", len(objs)+1, x)
	p := filepath.Join(t.TempDir(), "d.pdf")
	if err := os.WriteFile(p, b.Bytes(), 0o600); err != nil {
		t.Fatal(err)
	}
	r, err := Open(p)
	if err != nil {
		t.Fatal(err)
	}
	defer r.Close()
	done := make(chan error, 1)
	var out core.Object
	go func() {
		var err error
		out, err = r.ResolveDeep(core.IndirectRef{Number: 3})
		done <- err
	}()
	select {
	case err := <-done:
		if err != nil {
			t.Fatal(err)
		}
	case <-time.After(20 * time.Second):
		t.Fatal("ResolveDeep of 60 shared arrays still running after 20 s (2^60 copies)")
	}
	// the expansion is still the full tree: follow the first element down to the leaf
	depth := 0
	for {
		a, ok := out.(core.Array)
		if !ok {
			break
		}
		if len(a) != 2 {
			t.Fatalf("level %d: %d elements", depth, len(a))
		}
		out = a[0]
		depth++
	}
	if s, ok := out.(core.String); !ok || string(s) != "leaf" || depth != n {
		t.Fatalf("depth %d, leaf %v", depth, out)
	}
}
