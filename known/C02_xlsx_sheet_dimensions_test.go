package xlsx

import "testing"

// the grid of a worksheet used to be sized from the cell references without any limit:
// "ZZZZZZZZZZZZZ1" panicked in makeslice, row r="2000000000" tried to allocate billions of cells
func TestSheetDimensionsFromFile(t *testing.T) {
	for _, x := range []string{
		`<worksheet><sheetData><row r="1"><c r="ZZZZZZZZZZZZZ1"><v>1</v></c></row></sheetData></worksheet>`,
		`<worksheet><sheetData><row r="2000000000"><c r="A2000000000"><v>1</v></c></row></sheetData></worksheet>`,
		`<worksheet><sheetData><row r="1000000"><c r="XFD1000000"><v>1</v></c></row></sheetData></worksheet>`,
	} {
		r := &Reader{}
		if _, err := r.parseWorksheet([]byte(x), "s", 0); err == nil {
			t.Fatalf("oversized sheet accepted: %s", x)
		}
	}
	r := &Reader{}
	s, err := r.parseWorksheet([]byte(`<worksheet><sheetData><row r="3"><c r="C3"><v>7</v></c></row></sheetData></worksheet>`), "s", 0)
	if err != nil || s.Rows[2][2].Value != "7" {
		t.Fatalf("small sheet refused or misplaced: %v", err)
	}
}
