package core

import "testing"

// ObjectStream.decode recorded the decoded bytes before the header was parsed: after a header that fails half-way
// (here the second object number is not an integer) the stream counted as decoded, and REPEATING the same lookup
// succeeded from the half-filled offset table - what a lookup returns depended on the lookups before it
// (reported by a round-11 seeding agent)
func TestObjectStreamPartialHeader(t *testing.T) {
	st := &Stream{Dict: Dict{"Type": Name("ObjStm"), "N": Int(2), "First": Int(8)}, Data: []byte("5 0 6 x (five) (six)")}
	os, err := NewObjectStream(st)
	if err != nil {
		t.Fatal(err)
	}
	_, _, err1 := os.GetObjectByIndex(0)
	_, _, err2 := os.GetObjectByIndex(0)
	if err1 == nil {
		t.Fatal("broken header accepted")
	}
	if err2 == nil {
		t.Fatalf("the same lookup failed the first time (%v) and succeeded the second time", err1)
	}
}
