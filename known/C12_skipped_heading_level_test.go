package rag

// Known-finding witness (C12): with a skipped heading level (H1 then H3) the section stack's DEPTH no longer equals the
// heading LEVEL; updateSectionPath pops by depth, so a following sibling H3 is nested under the previous H3.

import (
	"testing"

	"github.com/tsawler/tabula/model"
)

func TestKF_C12_SkippedHeadingLevel(t *testing.T) {
	page := &model.Page{Number: 1}
	for _, h := range []struct {
		l int
		s string
	}{{1, "Title"}, {3, "First"}, {3, "Second"}} {
		page.Elements = append(page.Elements, &model.Heading{Level: h.l, Text: h.s})
	}
	cc := NewDocumentChunker().ChunkDocument(&model.Document{Pages: []*model.Page{page}})
	for _, c := range cc.Chunks {
		if c.Text == "Second" {
			p := c.Metadata.SectionPath
			if len(p) != 2 || p[0] != "Title" || p[1] != "Second" {
				t.Fatalf("section path of the sibling heading is %v, want [Title Second]", p)
			}
		}
	}
}
