package layout

// Known-finding witness (C09): a line whose bounding box is narrower than MinLineWidth (5pt by default), e.g. a lone
// "1" or "." on its own line, is silently dropped by LineDetector.buildLines: its fragment is in no detected line.

import (
	"testing"

	"github.com/tsawler/tabula/text"
)

func TestKF_C09_NarrowLineDropped(t *testing.T) {
	frags := []text.TextFragment{
		{Text: "A normal line of text", X: 72, Y: 700, Width: 200, Height: 12, FontSize: 12},
		{Text: "7", X: 72, Y: 650, Width: 4, Height: 12, FontSize: 12},
		{Text: "Another normal line", X: 72, Y: 600, Width: 180, Height: 12, FontSize: 12},
	}
	layout := NewLineDetector().Detect(frags, 612, 792)
	n := 0
	for _, l := range layout.Lines {
		n += len(l.Fragments)
	}
	if n != len(frags) {
		t.Fatalf("%d fragments in, %d fragments in the detected lines", len(frags), n)
	}
}
