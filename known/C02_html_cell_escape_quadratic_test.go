package htmldoc

import (
	"strings"
	"testing"
	"time"
)

// escapeMarkdown built its result with `result += string(r)` one rune at a time - quadratic: a table cell of 400 KB
// kept MarkdownWithOptions busy for 32 s, 800 KB for about two minutes (reported and measured by a round-14 seeding
// agent); a cell of some megabytes is a hang.  It appends to a strings.Builder now.
func TestCellEscapeIsLinear(t *testing.T) {
	cell := strings.Repeat("a|b é\n", 400000) // 2.8 MB
	start := time.Now()
	out := escapeMarkdown(cell)
	if d := time.Since(start); d > 5*time.Second {
		t.Fatalf("escaping a %d-byte cell took %v", len(cell), d)
	}
	if strings.Contains(out, "\n") || !strings.Contains(out, "é") || strings.Count(out, "\\|") != 400000 {
		t.Fatal("escaped text is wrong")
	}
}
