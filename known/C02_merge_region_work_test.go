package xlsx

import (
	"fmt"
	"strings"
	"testing"
	"time"
)

// every <mergeCell> of a worksheet may cover the whole grid again: 3000 regions A1:D1000000 over a 4-million-cell grid
// kept parseWorksheet busy for 12 billion cell visits (minutes; with more regions, hours) from a 90 KB part
func TestMergeRegionWork(t *testing.T) {
	var mc strings.Builder
	for i := 0; i < 3000; i++ {
		fmt.Fprintf(&mc, `<mergeCell ref="A1:D1000000"/>`)
	}
	data := `<?xml version="1.0"?><worksheet xmlns="http://schemas.openxmlformats.org/spreadsheetml/2006/main"><sheetData><row r="1000000"><c r="D1000000"><v>1</v></c></row></sheetData><mergeCells>` + mc.String() + `</mergeCells></worksheet>`
	r := &Reader{}
	done := make(chan error, 1)
	go func() { _, err := r.parseWorksheet([]byte(data), "S", 0); done <- err }()
	select {
	case err := <-done:
		if err == nil {
			t.Fatal("overlapping merged regions covering 12 billion cells accepted")
		}
	case <-time.After(20 * time.Second):
		t.Fatal("parseWorksheet still busy after 20 s")
	}
	// a valid sheet: disjoint regions are applied as before
	ok := `<?xml version="1.0"?><worksheet xmlns="http://schemas.openxmlformats.org/spreadsheetml/2006/main"><sheetData><row r="2"><c r="C2"><v>1</v></c></row></sheetData><mergeCells><mergeCell ref="A1:B2"/><mergeCell ref="C1:C2"/></mergeCells></worksheet>`
	s, err := r.parseWorksheet([]byte(ok), "S", 0)
	if err != nil || !s.Rows[0][0].IsMergeRoot || !s.Rows[1][1].IsMerged || s.Rows[0][0].MergeCols != 2 || !s.Rows[1][2].IsMerged {
		t.Fatalf("disjoint regions: %v", err)
	}
}
