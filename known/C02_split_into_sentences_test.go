package rag

import "testing"

// "ab.C." used to panic with index out of range [-1]: after the first sentence end the builder is reset, so the
// "single capital letter" look-behind str[len(str)-3] had nothing to look at
func TestSplitIntoSentencesAfterReset(t *testing.T) {
	for _, s := range []string{"ab.C.", "x. A.", "Go! B. c", "É. Ü."} {
		_ = splitIntoSentences(s)
	}
}
