package pptx

import "testing"

// pptx.replaceAll (behind escapeMarkdown, Table.ToMarkdown, Slide.ToMarkdown) appended string(s[i]) for a BYTE: every
// non-ASCII byte of a table cell was re-encoded as a two-byte character - "café" came out of ToMarkdown as mojibake
// (found by the bounded check C15/bounded:pptx_cell_escape and reported by a round-15 seeding agent); the result was
// also built by repeated concatenation (quadratic)
func TestCellTextKeepsNonASCII(t *testing.T) {
	for _, s := range []string{"café", "日本|語", "naïve\nline"} {
		got := escapeMarkdown(s)
		want := map[string]string{"café": "café", "日本|語": "日本\\|語", "naïve\nline": "naïve line"}[s]
		if got != want {
			t.Fatalf("escapeMarkdown(%q) = %q, want %q", s, got, want)
		}
	}
}
