package text

import "testing"

// the content-stream parser dispatched to its operator reader only on a letter, so the text-showing operators ' and "
// (ISO 32000 9.4.3: move to the next line and show a string) were read as operands: "unexpected character" and the whole
// page lost its text (reported by a round-10 seeding agent)
func TestQuoteOperators(t *testing.T) {
	e := NewExtractor()
	frags, err := e.ExtractFromBytes([]byte("BT /F1 12 Tf 14 TL 72 700 Td (one) Tj (two) ' 1 2 (three) \" ET"))
	if err != nil {
		t.Fatalf("content stream with ' and \": %v", err)
	}
	if len(frags) != 3 || frags[0].Text != "one" || frags[1].Text != "two" || frags[2].Text != "three" {
		t.Fatalf("fragments: %+v", frags)
	}
	if frags[1].Y != 700-14 || frags[2].Y != 700-28 || frags[1].X != 72 {
		t.Fatalf("' and \" must move to the start of the next line: %+v", frags)
	}
}
