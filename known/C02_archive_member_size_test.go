package xlsx

import (
	"archive/zip"
	"bytes"
	"os"
	"testing"
)

// archive members used to be read with an unbounded io.ReadAll: a 0.5 MB .xlsx whose worksheet inflates to 512 MiB made
// Open allocate gigabytes (same pattern in docx, odt, pptx, epubdoc)
func TestArchiveMemberSizeIsBounded(t *testing.T) {
	old := maxPartSize
	maxPartSize = 1 << 20
	defer func() { maxPartSize = old }()
	var buf bytes.Buffer
	zw := zip.NewWriter(&buf)
	add := func(name, body string) {
		w, _ := zw.Create(name)
		w.Write([]byte(body))
	}
	add("[Content_Types].xml", `<Types/>`)
	add("xl/workbook.xml", `<workbook xmlns:r="http://schemas.openxmlformats.org/officeDocument/2006/relationships"><sheets><sheet name="S" sheetId="1" r:id="rId1"/></sheets></workbook>`)
	add("xl/_rels/workbook.xml.rels", `<Relationships><Relationship Id="rId1" Target="worksheets/sheet1.xml"/></Relationships>`)
	w, _ := zw.Create("xl/worksheets/sheet1.xml")
	w.Write([]byte(`<worksheet><sheetData><row r="1"><c r="A1"><v>1</v></c></row></sheetData>`))
	w.Write(bytes.Repeat([]byte(" "), 8<<20))
	w.Write([]byte(`</worksheet>`))
	zw.Close()
	p := t.TempDir() + "/big.xlsx"
	os.WriteFile(p, buf.Bytes(), 0o644)
	r, err := Open(p)
	if err == nil {
		n := len(r.sheets)
		r.Close()
		if n != 0 {
			t.Fatalf("an 8 MiB worksheet was read although the member limit is 1 MiB")
		}
	}
}
