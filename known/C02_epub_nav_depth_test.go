package epubdoc

import (
	"strings"
	"testing"
)

// an EPUB navigation document with millions of nested elements used to abort the process with a stack overflow in the
// recursive walks of parseNavXHTML (the depth check of htmldoc did not cover it)
func TestNavDocumentDepth(t *testing.T) {
	if _, err := parseNavXHTML([]byte("<html><body><nav epub:type=\"toc\">" + strings.Repeat("<x>", 200000) + "</nav></body></html>")); err == nil {
		t.Fatal("200000 nested elements accepted")
	}
	if _, err := parseNavXHTML([]byte(`<html><body><nav epub:type="toc"><ol><li><a href="a.xhtml">A</a></li></ol></nav></body></html>`)); err != nil {
		t.Fatalf("ordinary nav refused: %v", err)
	}
}
