package font

import (
	"strings"
	"testing"
	"time"
)

// an unclosed '[' in a bfrange section used to cost quadratic time: 1 MB took about 30 s
func TestBfRangeUnclosedArrayIsLinear(t *testing.T) {
	var b strings.Builder
	b.WriteString("1 beginbfrange\n<0001> <0002> [<0041>\n")
	for b.Len() < 2<<20 {
		b.WriteString("<0042> <0043>\n")
	}
	b.WriteString("endbfrange\n")
	t0 := time.Now()
	_, _ = parseCMapData([]byte(b.String()))
	if d := time.Since(t0); d > 5*time.Second {
		t.Fatalf("2 MB bfrange section with an unclosed array took %v", d)
	}
}
