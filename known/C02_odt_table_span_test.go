package odt

import "testing"

// number-columns-spanned="400000000" (a 20-byte attribute) used to size the row-span bookkeeping and the rendered
// rows: gigabytes of memory for a tiny document
func TestTableSpanFromFile(t *testing.T) {
	tp := NewTableParser(nil)
	tbl := tableXML{Rows: []tableRowXML{
		{Cells: []tableCellXML{{NumberColumnsSpanned: "400000000", NumberRowsSpanned: "2"}, {NumberColumnsSpanned: "16000"}, {NumberColumnsSpanned: "16000"}}},
		{Cells: []tableCellXML{{}}},
	}}
	pt := tp.ParseTable(tbl)
	if n := len(pt.ToMarkdown()); n > 1<<20 {
		t.Fatalf("rendered table of %d bytes from a three-cell table", n)
	}
}
