package core

import (
	"strings"
	"testing"
)

// NewObjectStream accepted /Extends only as *IndirectRef, but the parser yields IndirectRef VALUES: every object stream
// carrying "/Extends 9 0 R" read from a file was rejected ("invalid /Extends type: core.IndirectRef") and none of its
// objects could be looked up (reported by seeding agents in rounds 8 and 10)
func TestObjectStreamExtendsAsParsed(t *testing.T) {
	p := NewParser(strings.NewReader("<< /Type /ObjStm /N 1 /First 4 /Extends 9 0 R >>"))
	obj, err := p.ParseObject()
	if err != nil {
		t.Fatal(err)
	}
	os, err := NewObjectStream(&Stream{Dict: obj.(Dict), Data: []byte("5 0 42")})
	if err != nil {
		t.Fatalf("object stream with a parsed /Extends refused: %v", err)
	}
	if e := os.Extends(); e == nil || e.Number != 9 {
		t.Fatalf("Extends() = %v", e)
	}
}
