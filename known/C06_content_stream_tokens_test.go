package contentstream

import (
	"testing"

	"github.com/tsawler/tabula/core"
)

// three places where the content-stream parser read PDF syntax differently from the document parser (reported by a
// round-12 seeding agent): an odd-length hex string left its closing '>' unconsumed ("<484> Tj" failed with 'unexpected
// character'); the Type 3 glyph operators d0 and d1 were split into the operator "d" and a stray number; true/false/null
// were recognised only when followed by white space ("[true] x" failed)
func TestContentStreamTokens(t *testing.T) {
	ops, err := NewParser([]byte("<484> Tj")).Parse()
	if err != nil || len(ops) != 1 || ops[0].Operator != "Tj" || len(ops[0].Operands) != 1 || string(ops[0].Operands[0].(core.String)) != "H@" {
		t.Fatalf("odd-length hex string: %v %+v", err, ops)
	}
	ops, err = NewParser([]byte("500 0 d0 1000 0 0 0 750 750 d1")).Parse()
	if err != nil || len(ops) != 2 || ops[0].Operator != "d0" || len(ops[0].Operands) != 2 || ops[1].Operator != "d1" || len(ops[1].Operands) != 6 {
		t.Fatalf("d0/d1: %v %+v", err, ops)
	}
	ops, err = NewParser([]byte("[true false null] x")).Parse()
	if err != nil || len(ops) != 1 || ops[0].Operator != "x" || len(ops[0].Operands) != 1 {
		t.Fatalf("booleans in an array: %v %+v", err, ops)
	}
	if a, ok := ops[0].Operands[0].(core.Array); !ok || len(a) != 3 || a[0] != core.Bool(true) || a[1] != core.Bool(false) {
		t.Fatalf("booleans in an array: %+v", ops[0].Operands[0])
	}
}
