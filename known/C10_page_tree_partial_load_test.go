package pages

import (
	"testing"

	"github.com/tsawler/tabula/core"
)

type kfResolver struct{}

func (kfResolver) Resolve(o core.Object) (core.Object, error)     { return o, nil }
func (kfResolver) ResolveDeep(o core.Object) (core.Object, error) { return o, nil }
func (kfResolver) ResolveReference(r core.IndirectRef) (core.Object, error) {
	return nil, nil
}

// loadPages kept the pages collected before a traversal error: the first GetPage(0) returned the error, the second
// returned a page with a nil error - the answer depended on the call before it (reported by a round-12 seeding agent)
func TestPageTreePartialLoad(t *testing.T) {
	root := core.Dict{"Type": core.Name("Pages"), "Count": core.Int(2), "Kids": core.Array{
		core.Dict{"Type": core.Name("Page")},
		core.Dict{"Type": core.Name("Bogus")},
	}}
	pt := NewPageTree(root, kfResolver{})
	_, err1 := pt.GetPage(0)
	_, err2 := pt.GetPage(0)
	if err1 == nil {
		t.Fatal("broken page tree accepted")
	}
	if err2 == nil {
		t.Fatalf("the same call failed the first time (%v) and succeeded the second time", err1)
	}
}
