package filters

import (
	"bytes"
	"compress/zlib"
	"testing"
)

// inflate used to copy without any limit: a stream of a few KB could expand to gigabytes
func TestInflateOutputIsBounded(t *testing.T) {
	old := maxInflatedSize
	maxInflatedSize = 1 << 20
	defer func() { maxInflatedSize = old }()
	var z bytes.Buffer
	w := zlib.NewWriter(&z)
	w.Write(make([]byte, 8<<20))
	w.Close()
	if z.Len() > 64<<10 {
		t.Fatalf("test setup: %d compressed bytes", z.Len())
	}
	if out, err := FlateDecode(z.Bytes(), nil); err == nil {
		t.Fatalf("%d bytes inflated from %d although the limit is %d", len(out), z.Len(), maxInflatedSize)
	}
	small := new(bytes.Buffer)
	w = zlib.NewWriter(small)
	w.Write([]byte("hello"))
	w.Close()
	if out, err := FlateDecode(small.Bytes(), nil); err != nil || string(out) != "hello" {
		t.Fatalf("small stream: %q %v", out, err)
	}
}
