package text

import (
	"strings"
	"testing"
	"time"

	"github.com/tsawler/tabula/core"
)

// a form XObject whose content is k copies of "/Fm1 Do " invoking itself costs k^10 invocations under the nesting
// limit alone: k=8 (a 64-byte stream) used to run for hours
func TestXObjectFanOutIsBounded(t *testing.T) {
	form := &core.Stream{Dict: core.Dict{"Type": core.Name("XObject"), "Subtype": core.Name("Form")}, Data: []byte(strings.Repeat("/Fm1 Do ", 8))}
	res := core.Dict{"XObject": core.Dict{"Fm1": form}}
	e := NewExtractor()
	e.SetResourceContext(res, func(r core.IndirectRef) (core.Object, error) { return nil, nil })
	done := make(chan struct{})
	go func() {
		e.ExtractFromBytes([]byte("/Fm1 Do"))
		close(done)
	}()
	select {
	case <-done:
	case <-time.After(20 * time.Second):
		t.Fatal("self-invoking form XObject still running after 20 s")
	}
}
