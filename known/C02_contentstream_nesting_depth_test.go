package contentstream

import (
	"strings"
	"testing"
)

// megabytes of '[' in a content stream used to abort the process with "fatal error: stack overflow"
func TestContentStreamNestingDepth(t *testing.T) {
	for _, open := range []string{"[", "<</a "} {
		_, err := NewParser([]byte(strings.Repeat(open, 3000000))).Parse()
		_ = err
	}
	ops, err := NewParser([]byte(strings.Repeat("[", 100) + "1" + strings.Repeat("]", 100) + " TJ")).Parse()
	if err != nil || len(ops) != 1 {
		t.Fatalf("100 levels refused: %v %d", err, len(ops))
	}
}
