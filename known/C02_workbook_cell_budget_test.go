package xlsx

import (
	"archive/zip"
	"bytes"
	"fmt"
	"os"
	"path/filepath"
	"strings"
	"testing"
)

// the cell budget was per worksheet only: a 1 KB workbook declaring N sheets that all point at one tiny worksheet part
// (a single cell at D1000000) made the reader allocate N dense grids of 4 million cells each (about 480 MB per sheet)
func TestWorkbookCellBudget(t *testing.T) {
	build := func(n int) []byte {
		var buf bytes.Buffer
		zw := zip.NewWriter(&buf)
		add := func(name, body string) {
			w, _ := zw.Create(name)
			w.Write([]byte(body))
		}
		add("[Content_Types].xml", `<?xml version="1.0"?><Types xmlns="http://schemas.openxmlformats.org/package/2006/content-types"></Types>`)
		var sheets, rels strings.Builder
		for i := 1; i <= n; i++ {
			fmt.Fprintf(&sheets, `<sheet name="S%d" sheetId="%d" r:id="rId%d"/>`, i, i, i)
			fmt.Fprintf(&rels, `<Relationship Id="rId%d" Type="http://schemas.openxmlformats.org/officeDocument/2006/relationships/worksheet" Target="worksheets/s.xml"/>`, i)
		}
		add("xl/workbook.xml", `<?xml version="1.0"?><workbook xmlns="http://schemas.openxmlformats.org/spreadsheetml/2006/main" xmlns:r="http://schemas.openxmlformats.org/officeDocument/2006/relationships"><sheets>`+sheets.String()+`</sheets></workbook>`)
		add("xl/_rels/workbook.xml.rels", `<?xml version="1.0"?><Relationships xmlns="http://schemas.openxmlformats.org/package/2006/relationships">`+rels.String()+`</Relationships>`)
		add("xl/worksheets/s.xml", `<?xml version="1.0"?><worksheet xmlns="http://schemas.openxmlformats.org/spreadsheetml/2006/main"><sheetData><row r="1000000"><c r="D1000000"><v>1</v></c></row></sheetData></worksheet>`)
		zw.Close()
		return buf.Bytes()
	}
	open := func(data []byte) (*Reader, error) {
		p := filepath.Join(t.TempDir(), "w.xlsx")
		if err := os.WriteFile(p, data, 0o600); err != nil {
			t.Fatal(err)
		}
		return Open(p)
	}
	if r, err := open(build(2)); err != nil {
		t.Fatalf("two sheets of 4 million cells refused: %v", err)
	} else {
		r.Close()
	}
	data := build(3)
	if r, err := open(data); err == nil {
		r.Close()
		t.Fatalf("a %d-byte workbook with 12 million grid cells was accepted", len(data))
	}
}
