package htmldoc

import (
	"strings"
	"testing"
)

// 5 million nested <span> (35 MB) used to abort the process with "fatal error: stack overflow" in the recursive walks
func TestHTMLNestingDepth(t *testing.T) {
	if _, err := OpenReader(strings.NewReader("<html><body><p>" + strings.Repeat("<span>", 200000) + "x</p></body></html>")); err == nil {
		t.Fatal("200000 nested elements accepted")
	}
	r, err := OpenReader(strings.NewReader("<html><body>" + strings.Repeat("<div>", 300) + "<p>deep</p>" + strings.Repeat("</div>", 300) + "</body></html>"))
	if err != nil {
		t.Fatalf("300 levels refused: %v", err)
	}
	if txt, _ := r.Text(); !strings.Contains(txt, "deep") {
		t.Fatalf("text lost: %q", txt)
	}
}
