package docx

import (
	"os"
	"strings"
	"testing"
)

// w:ilvl was taken from the file without a bound and the Markdown/text writers indent by two spaces per level:
// <w:ilvl w:val="200000000"/> in a 1 KB document made Markdown() allocate 2.2 GB (reported by a round-10 seeding agent)
func TestListLevelIsBounded(t *testing.T) {
	if got := parseListLevel("200000000"); got != 8 {
		t.Fatalf("parseListLevel(200000000) = %d, want 8 (the deepest WordprocessingML level)", got)
	}
	if got := parseListLevel("99999999999999999999999999"); got != 8 {
		t.Fatalf("parseListLevel(huge) = %d, want 8", got)
	}
	for i, s := range []string{"0", "1", "2", "3", "4", "5", "6", "7", "8"} {
		if got := parseListLevel(s); got != i {
			t.Fatalf("parseListLevel(%q) = %d", s, got)
		}
	}
	path := createTestDOCX(t, `<w:p><w:pPr><w:numPr><w:ilvl w:val="200000000"/><w:numId w:val="1"/></w:numPr></w:pPr><w:r><w:t>x</w:t></w:r></w:p>`)
	defer os.Remove(path)
	r, err := Open(path)
	if err != nil {
		t.Fatal(err)
	}
	defer r.Close()
	md, err := r.Markdown()
	if err != nil || len(md) > 1000 || !strings.Contains(md, "x") {
		t.Fatalf("Markdown() = %d bytes, %v", len(md), err)
	}
}
