package core

import (
	"strings"
	"testing"
)

// /W widths whose sum wraps around 2^63 used to pass the "enough data" test and then slice out of range
func TestXRefStreamWidthWrap(t *testing.T) {
	x := NewXRefParser(strings.NewReader(""))
	defer func() {
		if r := recover(); r != nil {
			t.Fatalf("panic: %v", r)
		}
	}()
	_, _, err := x.parseXRefStreamEntry([]byte{1, 2, 3, 4}, []int{4611686018427387904, 4611686018427387904, 0})
	if err == nil {
		t.Fatal("wrapped widths accepted")
	}
}
