package tabula

import (
	"os"
	"path/filepath"
	"testing"
)

// IsCharacterLevel / IsMultiColumn on a non-PDF input dereferenced the nil PDF reader (the guard added to resolvePages did
// not cover these two helpers): Open("a.html").IsCharacterLevel() panicked (reported by a round-11 seeding agent)
func TestInspectionOnNonPDF(t *testing.T) {
	p := filepath.Join(t.TempDir(), "a.html")
	if err := os.WriteFile(p, []byte("<html><body><p>hi</p></body></html>"), 0o600); err != nil {
		t.Fatal(err)
	}
	for _, f := range []func(*Extractor) (bool, error){(*Extractor).IsCharacterLevel, (*Extractor).IsMultiColumn} {
		ext := Open(p)
		if _, err := f(ext); err == nil {
			t.Fatal("inspection of a non-PDF document did not report an error")
		}
		ext.Close()
	}
}
