package layout

import (
	"math"
	"testing"

	"github.com/tsawler/tabula/text"
)

// the gap histogram used to be sized int(pageWidth/5)+1 with the width of the file's MediaBox:
// -100, NaN, +Inf and 1e15 panicked with "makeslice: len out of range"
func TestColumnHistogramPageWidth(t *testing.T) {
	frags := []text.TextFragment{{Text: "a", X: 50, Y: 700, Width: 100, Height: 10}, {Text: "b", X: 350, Y: 700, Width: 100, Height: 10}}
	for _, w := range []float64{-100, math.NaN(), math.Inf(1), 1e15, 0} {
		if l := NewColumnDetector().Detect(frags, w, 792); l == nil {
			t.Fatalf("width %v: nil layout", w)
		}
	}
}
