#!/bin/bash
# runs every claimed check on the current tree; prints one line each; exit 1 if any check is not clean
cd /verif; rc=0
for p in $(jq -r '.checks[].property_id' MANIFEST.json); do
  out=$(./check.sh $p quick 2>&1); st=$?
  echo "$(echo "$out" | tail -1) [exit $st]"
  [ $st -ne 0 ] && rc=1 && echo "$out" | grep '^VIOLATION' | sed 's/.*obligation=/    /' | head -5
done
exit $rc
