#!/bin/bash
# re-runs detection for every stored seed and refreshes meta.json (detected_by / replay status)
cd /verif
for d in seeded/*/; do
  n=$(basename $d); p=$(jq -r .property $d/meta.json)
  tools/redetect.sh $n $p > /dev/null 2>&1
  python3 - "$d" "$p" <<'PY'
import json,sys,re,os
d,p=sys.argv[1],sys.argv[2]
m=json.load(open(d+'meta.json'))
log=open(d+f'check_{p}.log').read()
viol=[l for l in log.split('\n') if l.startswith('VIOLATION')]
m['detected']=len(viol)>0
m['detected_by']=[v.split('obligation=')[1] for v in viol]
conf=[]
for v in viol:
    rp=re.search(r'replay=(\S+)',v).group(1)
    if os.path.exists(rp):
        t=open(rp).read()
        mm=re.search(r'^replay: (\S+)',t,re.M)
        conf.append(mm.group(1) if mm else 'none')
m['replay_status']=conf
json.dump(m,open(d+'meta.json','w'),indent=1)
print(m['name'],m['detected'],conf)
PY
done
