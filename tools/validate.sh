#!/bin/bash
# validates MANIFEST.json and every evidence file (schema, no violations, discharged == obligations); run before every commit
python3-vt - <<'PY'
import json,jsonschema,glob,sys
jsonschema.validate(json.load(open('/verif/MANIFEST.json')),json.load(open('/root/.vp/MANIFEST.schema.json')))
sc=json.load(open('/root/.vp/EVIDENCE.schema.json'))
bad=0
for f in sorted(glob.glob('/verif/evidence/*.json')):
    d=json.load(open(f)); jsonschema.validate(d,sc)
    c=d['coverage']
    if d['violations'] or c.get('discharged')!=c.get('obligations'):
        print('STALE/VIOLATING evidence:',f,c.get('discharged'),c.get('obligations'),len(d['violations'])); bad=1
print('manifest+evidence ok' if not bad else 'PROBLEM')
sys.exit(bad)
PY
