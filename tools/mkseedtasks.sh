#!/bin/bash
# usage: mkseedtasks.sh <round-number>   creates /var/tmp/seed<N>/<prop> worktrees (contracts removed) with _seed/TASK.md
N=$1; D=/var/tmp/seed$N; mkdir -p $D
for p in C02 C03 C04 C05 C06 C07 C08 C09 C10 C11 C12 C13 C14 C15 C17 C18 C19 C20; do
  w=$D/$p; git -C /repo worktree add -q --detach $w HEAD; find $w -name "zz_contracts_verif.go" -delete; mkdir -p $w/_seed
  git -C $w add -A . >/dev/null 2>&1; git -C $w reset -q _seed 2>/dev/null; git -C $w commit -qm "scratch base"
done
python3 - $N <<'EOF'
import json,glob,re,sys
N=sys.argv[1]
props={}
for l in open('/verif/properties.jsonl'):
    d=json.loads(l); props[d['id']]=d
T=open('/verif/tools/seedtask.tmpl').read()
for p in props:
    if p in ('C01','C16'): continue
    av=[]
    for d in sorted(glob.glob(f'/verif/seeded/{p}-*')):
        pd=open(d+'/patch.diff').read()
        files=re.findall(r'^\+\+\+ b/(\S+)',pd,re.M)
        fn=[]
        for h in re.findall(r'^@@.*@@ (.*)$',pd,re.M):
            m=re.search(r'func (\([^)]*\) )?(\w+)',h)
            if m: fn.append(m.group(2))
        av.append(f"{','.join(files)} ({', '.join(sorted(set(fn))) or 'top of file'})")
    d=props[p]
    open(f'/var/tmp/seed{N}/{p}/_seed/TASK.md','w').write(T.replace('{N}',N).replace('{P}',p).replace('{TEXT}',d['title']+'. '+d['statement']).replace('{AVOID}','; '.join(av)).replace('{FILES}',', '.join(d['anchors']['files'])))
    open(f'/var/tmp/seed{N}/{p}/_seed/property.txt','w').write(d['title']+'. '+d['statement']+'\n')
print('ok')
EOF
