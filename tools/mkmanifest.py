#!/usr/bin/env python3
"""Regenerates /verif/MANIFEST.json from the table below (single source of truth for claims)."""
import json, subprocess, os
V = os.path.dirname(os.path.dirname(os.path.abspath(__file__)))

TRUST = ("Trusted base: the gocv VC generator (Go subset lowering, A4), z3 5.1.0 / cvc5 1.0 / z3 4.8.12, go/types; "
         "int arithmetic mathematical (A1), float64 as reals (A2), slices as value sequences without aliasing (A3); "
         "library models listed in the evidence file. ")

CLAIMS = {
 "C05": dict(
   text="Deductive proof (own weakest-precondition VC generator over the typed Go AST of /repo, obligations discharged by SMT) that "
        "the PNG predictor (any per-row filter mix, any Columns/Colors geometry, all rows) and the TIFF predictor 2 decode exactly the bytes "
        "a conforming encoder started from, for every input length and geometry; Paeth against the PNG specification; unknown filter types, "
        "unsupported bit depths and invalid geometry yield an error. Unbounded: loop invariants, no unrolling.",
   note=TRUST + "Not covered: zlib inflate itself (trusted library), ASCII85/ASCIIHex loops and the filter-chain driver unless listed under functions_under_contract in the evidence.",
   ref="5.5"),
}

NA = {
 "C01": "Whole-file property (os.File offsets under bufio, zlib, recursive object graph through an interface resolver): no contract within reach of the subset can express it; function-level facts are covered under C04-C08 (DESIGN 5.1).",
 "C16": "Document order is decided by encoding/xml unmarshalling and a token-stream second pass; no library contract exists and the information the property is about is lost before any post-condition could see it (DESIGN 5.16).",
}

def main():
    props = [json.loads(l) for l in open(os.path.join(V, "properties.jsonl"))]
    checks = []
    na = []
    for p in props:
        pid = p["id"]
        if pid in CLAIMS:
            c = CLAIMS[pid]
            checks.append({
                "property_id": pid,
                "quick_cmd": f"./check.sh {pid} quick",
                "thorough_cmd": f"./check.sh {pid} thorough",
                "evidence_file": f"/verif/evidence/{pid}.json",
                "replay_cmd_template": "cat {path}",
                "engine": "gocv",
                "level_claimed": {"category": "proof", "text": c["text"], "design_ref": "DESIGN.md §" + c["ref"]},
                "level_note": c["note"],
                "technique": "contract-based deductive verification: WP/VC generation over the real Go AST + SMT (z3/cvc5)",
            })
        else:
            na.append({"property_id": pid, "reason": NA.get(pid, "contracts for this property are not built yet in this revision (planned: DESIGN.md §5); not claimed.")})
    commits = subprocess.run(["git", "-C", "/repo", "log", "--format=%H %s"], capture_output=True, text=True).stdout.strip().split("\n")
    hooks = [c.split()[0] for c in commits if " verif:" in " " + c.split(" ", 1)[1][:7] or c.split(" ", 1)[1].startswith("verif:")]
    m = {
        "version": 1,
        "setup_cmd": "make -C /verif build",
        "hooks": {
            "guard": "verif",
            "enable": "go build -tags verif ./... (the engine loads /repo with -tags=verif; hook files are comment-only zz_contracts_verif.go)",
            "baseline_off_cmd": "cd /repo && GOFLAGS=-mod=mod GOPROXY=off GOSUMDB=off go test -vet=off -count=1 -timeout 25m ./...",
            "source_commits": hooks,
            "add_only": True,
        },
        "engines": [{"name": "gocv", "path": "/verif/engine", "serves_properties": sorted(CLAIMS),
                     "kind_free_text": "own VC generator (Go, go/packages + go/types, typed AST) for a stated subset of Go; contracts as //@ comments in /repo/<pkg>/zz_contracts_verif.go; SMT-LIB queries raced on z3-new, z3-new(e-matching), cvc5, z3"}],
        "checks": checks,
        "not_applicable": na,
        "notes": "See DESIGN.md. Known findings: /verif/known_findings.json. Fix commits in /repo start with 'fix:'.",
    }
    json.dump(m, open(os.path.join(V, "MANIFEST.json"), "w"), indent=1)
    print("claimed:", sorted(CLAIMS), "n/a:", [x["property_id"] for x in na])

main()
