#!/usr/bin/env python3
"""Regenerates /verif/MANIFEST.json from the table below (single source of truth for claims)."""
import json, subprocess, os
V = os.path.dirname(os.path.dirname(os.path.abspath(__file__)))

TRUST = ("Trusted base: the gocv VC generator (Go subset lowering, A4), z3 5.1.0 / cvc5 1.0 / z3 4.8.12, go/types; "
         "int arithmetic mathematical (A1), float64 as reals (A2), slices as value sequences without aliasing (A3); "
         "library models listed in the evidence file. ")

CLAIMS = {
 "C02": dict(
   text="Deductive proof of panic-freedom, termination and bounded allocation for the parsers and walkers under contract, for every input: every index/slice expression in bounds, every integer division by a non-zero divisor, every make size non-negative and (where a callsite make budget is given) bounded independently of numbers read from the file, every for-loop with a decreasing variant (a loop or a directly recursive function WITHOUT a variant is a failing obligation), recursion with lexicographic measures. Covered: the whole content-stream parser; the document parser core.(*Parser) (nextToken, skipComments, ParseObject, parseNumber, parseArray, parseDict: measure = 3*unread input + buffered tokens, so every loop consumes input or stops); core.(*Lexer).ReadBytes (1 MiB allocation budget); xref streams (parseXRefStream/parseXRefStreamEntry: /W widths, /Index pairing, progress per entry); the /Prev chain (ParseAllXRefs, measure 2^64 - visited offsets); object streams (parseHeader/decode/GetObjectByIndex); reader.(*Reader).GetObject (re-entrancy through the parser refused, nesting <= 32) and resolveDeep (depth measure); pages.traversePageNode (depth measure); text.invokeXObject <-> processOperation (nesting counter measure); UTF-16 and CMap string decoders; ASCIIHex/ASCII85; format sniffing; rag boundary search and BatchExporter. Eight genuine crash/hang defects found by failing obligations were repaired in /repo (fix: commits, known_findings.json).",
   note=TRUST + "PARTIAL: the document lexer is verified over an ideal byte-stream model of bufio.Reader (reads fail only at the end of the data or, stickily, on an I/O error); parseStream/ParseIndirectObject, parseTraditionalXRef, the container readers (zip/xml/html libraries) and recursion DEPTH of the two object parsers (stack use grows with nesting of [ and <<) are not covered; the re-entrancy of GetObject through the uncontracted parser is cut by proved guard obligations, its global measure is argued in DESIGN.md; exponential fan-out of nested form XObjects (depth <= 10) is not bounded.",
   ref="5.2"),
 "C05": dict(
   text="Deductive proof that the PNG predictor (any per-row filter mix, any Columns/Colors geometry, all rows) and the TIFF predictor 2 decode exactly the bytes a conforming encoder started from (ghost 'original image' sequences; Paeth against the PNG specification); that both predictors are SAFE and terminate on arbitrary data (robust views: the same functions verified without the provenance assumptions); ASCIIHex and ASCII85 per-element semantics (white space ignored, digit pairs / base-85 groups, 'z', partial final group, '~>', values above 2^32-1 rejected) as step contracts; the predictor dispatch (/Predictor 1 = identity, 2 = TIFF, 10..15 = PNG, anything else an error); FlateDecode = inflate then the named predictor (absent, null or 1: none); the filter-name dispatch including every abbreviation of ISO 32000 Table 6 (unknown name = error); and the filter chain: filters applied in array order, the i-th with the i-th /DecodeParms entry (none when the array is shorter) or the single dictionary.",
   note=TRUST + "PARTIAL: zlib inflate (zlibDecompress) and CCITTFaxDecode are ASSUMED deterministic functions (flags trusted, reported in the evidence); 'decode(encode(x)) = x' for Flate as a whole therefore rests on the inflate library; getIntParam's type switch uses uninterpreted dynamic-type tests (exclusive per value).",
   ref="5.5"),
 "C06": dict(
   text="Deductive proof that the document lexer (core.(*Lexer): NextToken, readString, readHexString, readName, readNumber, readKeyword, skipWhitespace, over an ideal byte-stream model of bufio.Reader) and the content-stream parser (parseString, parseHexString, parseName, skipWhitespace) follow ONE specification of ISO 32000 7.2-7.3 lexical syntax: the same specification functions (litNext/litDepth/litEmits/litByte for literal strings with every escape, line continuation, octal codes and nested parentheses; pdfWS/pdfDelim/pdfHexDigit/pdfHexVal for the byte classes; #xx escapes in names) describe each loop iteration of both (step contracts: which bytes an element consumes and which byte it contributes), so every literal string and name both accept gets the same value; hex strings: both ignore white space and take the digits in order; numbers and keywords are exactly the consumed text; class lemmas complete over all 256 byte values tie the three scanners' predicates (core, contentstream, filters) to the spec; operator/operand grouping of content streams (each operator gets exactly the operands parsed since the previous operator).",
   note=TRUST + "PARTIAL: 'write then parse back' is not stated (there is no writer in the library); the pairing of hex digits into bytes and number conversion use strconv (uninterpreted); the integer-integer-R lookahead and dictionary/array assembly of core.Parser are covered for progress (C02) only; the stream model assumes I/O failures are sticky (a failed read is followed only by failed reads) and steps are stated for iterations without I/O failure.",
   ref="5.6"),
 "C08": dict(
   text="Deductive proof over real arithmetic that the matrix algebra and every graphics-state operator under contract follow ISO 32000: Multiply/Transform against the row-vector semantics (stated semantically: image of every point), cm pre-multiplies the CTM, Td/TD/T* pre-multiply the line matrix and set Tm = Tlm, TD sets the leading, BT resets both matrices, Tm sets both, q pushes exactly what Q restores, Q restores exactly the saved CTM/text state/line width/colours and pops one entry (underflow = error, state unchanged), and the reported text position is the text-space origin through Tm then CTM (zero rise).",
   note=TRUST + "PARTIAL: floating point treated as reals (A2); the operator dispatch in text.(*Extractor).processOperation, glyph advances and the effective font size are not under contract; induction over operator sequences is a meta-argument over the per-operator contracts.",
   ref="5.8"),
 "C10": dict(
   text="Deductive proof that page selection is a set algebra (resolvePages: 0..n-1 when nothing is selected; fails iff some requested page is outside 1..n; on success strictly ascending, duplicate-free, exactly the requested set); that deriving a configured extractor copies the configuration (clone/Pages/PageRange: the clone's page list is a fresh slice, appends never write through the parent's backing array - noalias/fresh frame rules); that every terminal operation that opens a handle has a deferred Close on every exit (typestate rule `releases` on 11 terminal methods); and that Close clears the ownership flags and a second Close returns nil and changes nothing.",
   note=TRUST + "PARTIAL: sort.Ints is a trusted library contract; the per-page join rule of Text() and page-number stamping in Document() are not under contract; the typestate rule is syntactic (ensureReader followed by a deferred Close in the same function) and does not follow handles into the format readers' own Open error paths.",
   ref="5.10"),
 "C11": dict(
   text="Deductive proof that header/footer filtering only deletes: the result is exactly the sub-sequence of kept fragments (same order, nothing invented or duplicated: position of every kept fragment = number of kept fragments before it), a fragment is dropped only if a region detected for this page exists such that it lies in the top/bottom band and (character-level page or text match); no regions or body-band position => never dropped; nil detector result or empty input => input returned unchanged.",
   note=TRUST + "PARTIAL: region detection (which text repeats) is heuristic and not under contract, so the 'is removed from every page' direction is not decided; textsMatch is an uninterpreted deterministic predicate.",
   ref="5.11"),
 "C13": dict(
   text="Deductive proof for the splitting kernels: split points lie in 0..len and, for valid UTF-8 input (exact RFC 3629 automaton as ghost state), always on a character boundary; backward search bounds (a break within 50 bytes before the target keeps the piece within target+1); SplitToSize terminates and returns non-empty, ordered, non-overlapping substrings of the input.",
   note=TRUST + "PARTIAL: strings.TrimSpace is a trusted library contract (incl. 'a suffix of valid UTF-8 starting on a boundary trims to boundaries'); SplitToSize is stated without semantic boundaries; forward overshoot (+50/+100 bytes) is visible in the contract and not claimed absent; sentence/paragraph overlap strategies and splitBySentences are not under contract. Added in round 3: character overlap is a trailing part of the text within the configured size and on character boundaries; truncation to MaxOverlap never splits a character; ApplyOverlapToChunks generates each overlap from the previous chunk's ORIGINAL text (needs the shared-pointer-write rule of the engine). Three defects repaired.",
   ref="5.13"),
 "C14": dict(
   text="Deductive proof that ChunkCollection.Filter returns exactly the chunks satisfying the predicate, in order; that each convenience filter passes exactly its documented criterion to Filter (closure literal bound to the predicate symbol); that every export writes one record per chunk, in order: JSONL one Encode per chunk of that chunk's record, JSON one array with all records in order, CSV/TSV the header then one row per chunk with one field per column of the single sorted column list, streaming one record per call, vector-database records one per chunk with its id and text; that a record carries the chunk's id, text (when included), position metadata and flags; that the id/text/title columns carry those values; and that BatchExporter.Export terminates, stays in bounds and rejects a non-positive batch size; exporters do not modify their receiver (recvreadonly frames).",
   note=TRUST + "PARTIAL: well-formedness and parse-back of the JSON/CSV TEXT are delegated to encoding/json and encoding/csv (trusted, not modelled); metadata maps (chunkMetadataToMap/filterMetadata/flattenMetadata) and numeric column formatting (fmt.Sprintf) are uninterpreted.",
   ref="5.14"),
 "C15": dict(
   text="Deductive proof that (a) every ATX heading written by the DOCX/ODT readers, chunk rendering and layout.Heading has between 1 and 6 '#' (call-site contracts on strings.Repeat, verified from an arbitrary state of the enclosing blocks), (b) the cell-escaping functions produce text without line feeds in which every '|' is preceded by a backslash, and (c) every string written into a pipe table by the model/DOCX/ODT/XLSX table writers is a structural literal or such escaped text.",
   note=TRUST + "PARTIAL: strings.ReplaceAll/TrimSpace are trusted library contracts; row arity, list structure, PPTX/HTML table writers (string concatenation) and body-text conservation are not under contract.",
   ref="5.15"),
 "C17": dict(
   text="Deductive proof that ColumnToIndex computes bijective base-26 (case-insensitive, recursive spec) and rejects non-letters; ParseCellRef splits letters and digits and returns (column, row) zero-based; ParseRangeRef is two ParseCellRef corners around exactly one colon; IndexToColumn terminates, yields only upper-case letters and its last letter is 'A' + index mod 26; Sheet.Cell returns the addressed cell or nil; parseWorksheet allocates a dense grid covering every addressed cell, places every cell's raw value/formula/style at exactly the column its reference names (shared-string, boolean, error and formula-string values as specified) and touches no other cell; merged regions mark every covered cell, make the top-left cell the root with the region's extent and keep values; the shared-string table is index-stable (plain text or runs concatenated in order); findContentBounds encloses every value; sheetToTable maps table cell (k, c) to grid cell (minRow+1+k, minCol+c) with the first content row as header.",
   note=TRUST + "BOUNDED stand-in (never counted as proved, see evidence bounded_stand_ins_not_counted_as_proved): ColumnToIndex(IndexToColumn(i)) == i, injectivity and shortlex order are checked exhaustively on the real code for i < 18278 (all one- to three-letter names), CellRef/ParseCellRef on a sampled grid - the prepend-vs-fold induction is not mechanised. strings.ToUpper/Split, strconv.Atoi are library functions (uninterpreted/deterministic); number formatting, TextWithOptions/Markdown renderings are not under contract.",
   ref="5.17"),
 "C19": dict(
   text="Deductive proof of the exclusion lattice: shouldExclude equals a fixed monotone combination of three detector results that provably do not read the mode (frame analysis noread), mode None excludes nothing and each stricter mode excludes a superset (lemma exclude_monotone).",
   note=TRUST + "PARTIAL: the DOM walk (x/net/html node pointers) is not modelled, so 'stricter modes yield a subsequence of the output' follows only together with the unproved fact that the walk skips exactly the excluded subtrees; the link-density memoisation cache is assumed coherent.",
   ref="5.19"),
 "C20": dict(
   text="Deductive proof of the format decision kernels: extension table and its round trip for all seven formats, safe signature sniffing for every byte string, ZIP family sniffing order (mimetype entry, then an EPUB container file anywhere, then the FIRST entry under word/, xl/ or ppt/; nothing recognised = Unknown), refusal when recognised content differs from the extension's format, a reader is opened only after the content check succeeded on the same extractor state, with the opener of the declared format and for the declared file, and the DRM decision (rights file anywhere => refused; encrypted content iff some entry is not font obfuscation and covers a content document).",
   note=TRUST + "PARTIAL: zip/xml parsing are library code; reading the mimetype entry is I/O and not modelled; validateFormat is treated as a deterministic function of the extractor (the file is assumed not to change between check and open); string predicates (Contains/ToLower) are uninterpreted deterministic functions.",
   ref="5.20"),
 "C03": dict(
   text="Proof of frame conditions by static analysis of the real code plus contracts: (1) no package-level variable is written on any path reachable (static call graph, interface calls resolved by method name, function values) from an exported entry point — writes are allowed only in init functions or in declared registration APIs that no other entry point reaches; (2) the content-stream parser keeps pending operands per parser: every operator receives exactly the operands parsed since the previous operator of THIS parse (SMT-discharged contracts on parseNext/parseOperator/Parse); (3) range-over-map loops accepted by structural order-insensitivity rules on the reviewed tree stay order-insensitive (e.g. CSV columns are sorted after collection).",
   note=TRUST + "PARTIAL: concurrency is argued from disjoint footprints (no shared mutable package state), not explored; 18 map iterations that the structural rules do not accept are listed as unclaimed in the evidence (not proved order-insensitive); data races inside third-party packages and reflection are out of reach.",
   ref="5.3"),
 "C04": dict(
   text="Deductive proof of the revision kernels: MergeXRefTables maps every object number to the entry of the LAST table (newest revision, tables oldest-first) that defines it and defines nothing else, with the last table's trailer; ParseAllXRefs puts every older section found through /Prev in FRONT of the newer ones (step contract) and terminates on cyclic chains; parseXRefStreamEntry decodes type 0/1/2 entries to free/in-use/compressed with the big-endian field values (readBigEndianInt against a recursive spec) and rejects other types; reader.(*Reader).GetObject returns the cached value on a hit without touching anything, fails for numbers that are absent from the table or whose newest entry is free, and caches a loaded object under exactly its own number; getCompressedObject looks in stream entry.Offset at index entry.Generation; both loaders return only an object whose parsed number equals the number asked for (atreturn obligations); getObjectStream refuses nested object streams and keeps the cache representation invariant.",
   note=TRUST + "PARTIAL: traditional xref section parsing, FindXRef and the parse of the object bytes themselves (core.Parser through os.File/bufio) are not under contract, so 'the value' is the value the parser returns at the entry's location; independence from lookup order follows from the cache contracts (hit returns what a load stored under that number) together with determinism of the uncontracted parser; map iteration modelled as 'every present key exactly once in arbitrary order'.",
   ref="5.4"),
 "C07": dict(
   text="Deductive proof that DecodeUTF16BE/LE return exactly the scalar values a conforming UTF-16 encoder (RFC 2781, ghost scalar and offset sequences) started from, including surrogate pairs, for every well-formed even-length input; that the simple-font table decoder returns exactly the mapped table entries in order; that CMap.Lookup gives an explicit bfchar mapping precedence over ranges and maps a code in the first matching range to StartUnicode+(code-StartCode); and that fixed-width and width-less CMap string decoding stay in bounds and terminate.",
   note=TRUST + "PARTIAL: NFC normalisation (NormalizeUnicode) is an ASSUMED deterministic library function; the named-encoding branch of Font.DecodeString goes through an interface and is not compared; string(rune)/string([]rune) are uninterpreted encodings; the encoding tables' contents, bfrange array targets (parseBfRangeSectionWithArrays), codespacerange parsing and hexToUnicode's hex decoding are not under contract. Added in round 3: decode priority of Font.DecodeString (ToUnicode, then UTF-16 BOM, then raw bytes; NFC last), robust (arbitrary-input) views of the UTF-16 decoders, bfchar/bfrange section parsing (bracketed strings in order, pairs/triples, one mapping per well-formed group, nothing else touched).",
   ref="5.7"),
 "C09": dict(
   text="Deductive proof of fragment conservation for the line-grouping stages: for an ARBITRARY non-negative weight per fragment (uninterpreted, so the statement is multiset equality), text.groupFragments and layout.(*LineDetector).groupIntoLines (including its sort and per-line re-sorts) preserve the total weight and produce no empty line, and buildLines puts every group's fragments into exactly one Line except for the recorded known finding (narrow lines).",
   note=TRUST + "PARTIAL: prefix-fold stability under append/copy/permutation/field update is an engine rule justified by induction on the fold (shape of each fold checked syntactically; A6); sort.* are trusted permutations; columns, paragraphs, blocks, reading order and text rendering are not yet under contract.",
   ref="5.9"),
 "C12": dict(
   text="Deductive proof that RAG chunk metadata is consistent: every chunk constructor takes the next index and advances the counter by one, reports the page its content came from and stores its own copy of the section path; chunkPage and ChunkDocument yield indices 0..n-1 in order with TotalChunks = n on every chunk; the section stack after a heading is the chain of enclosing headings when no heading level was skipped (general case: recorded known finding).",
   note=TRUST + "PARTIAL: content conservation (every element's text in exactly one chunk), ID uniqueness (fmt.Sprintf is uninterpreted) and the layout-based rag.Chunker section tree are not under contract.",
   ref="5.12"),
 "C18": dict(
   text="Deductive proof that EPUB chapters are loaded in spine order (strictly increasing declared index, each from its manifest item), that the spine keeps declaration order (convertSpine), that hrefs are percent-decoded as PATHS (url.PathUnescape: '+' stays '+') and resolved against the package directory; worksheets in workbook order with their declared names, every declared relationship recorded under its id; PPTX: must-read frame obligation (slide order can only follow the declared slide list if the code reads it) - fails on the pinned tree and is a recorded known finding with a witness. One defect repaired (query-style unescaping of hrefs).",
   note=TRUST + "PARTIAL: container.xml/OPF XML parsing, slide discovery internals and 'text appears only in its own page' are not under contract; url.PathUnescape and path.Join are deterministic library functions.",
   ref="5.18"),
}

NA = {
 "C01": "Whole-file property (os.File offsets under bufio, zlib, recursive object graph through an interface resolver): no contract within reach of the subset can express it; function-level facts are covered under C04-C08 (DESIGN 5.1).",
 "C16": "Document order is decided by encoding/xml unmarshalling and a token-stream second pass; no library contract exists and the information the property is about is lost before any post-condition could see it (DESIGN 5.16).",
}

def main():
    props = [json.loads(l) for l in open(os.path.join(V, "properties.jsonl"))]
    checks = []
    na = []
    for p in props:
        pid = p["id"]
        if pid in CLAIMS:
            c = CLAIMS[pid]
            checks.append({
                "property_id": pid,
                "quick_cmd": f"./check.sh {pid} quick",
                "thorough_cmd": f"./check.sh {pid} thorough",
                "evidence_file": f"/verif/evidence/{pid}.json",
                "replay_cmd_template": "bin/gocv replay {path}",
                "engine": "gocv",
                "level_claimed": {"category": "proof", "text": c["text"], "design_ref": "DESIGN.md §" + c["ref"]},
                "level_note": c["note"],
                "technique": "contract-based deductive verification: WP/VC generation over the real Go AST + SMT (z3/cvc5)",
            })
        else:
            na.append({"property_id": pid, "reason": NA.get(pid, "contracts for this property are not built yet in this revision (planned: DESIGN.md §5); not claimed.")})
    commits = subprocess.run(["git", "-C", "/repo", "log", "--format=%H %s"], capture_output=True, text=True).stdout.strip().split("\n")
    hooks = [c.split()[0] for c in commits if " verif:" in " " + c.split(" ", 1)[1][:7] or c.split(" ", 1)[1].startswith("verif:")]
    m = {
        "version": 1,
        "setup_cmd": "make -C /verif build",
        "hooks": {
            "guard": "verif",
            "enable": "go build -tags verif ./... (the engine loads /repo with -tags=verif; hook files are comment-only zz_contracts_verif.go)",
            "baseline_off_cmd": "cd /repo && GOFLAGS=-mod=mod GOPROXY=off GOSUMDB=off go test -vet=off -count=1 -timeout 25m ./...",
            "source_commits": hooks,
            "add_only": True,
        },
        "engines": [{"name": "gocv", "path": "/verif/engine", "serves_properties": sorted(CLAIMS),
                     "kind_free_text": "own VC generator (Go, go/packages + go/types, typed AST) for a stated subset of Go; contracts as //@ comments in /repo/<pkg>/zz_contracts_verif.go; SMT-LIB queries raced on z3-new, z3-new(e-matching), cvc5, z3"}],
        "checks": checks,
        "not_applicable": na,
        "notes": "See DESIGN.md. Known findings: /verif/known_findings.json. Fix commits in /repo start with 'fix:'.",
    }
    json.dump(m, open(os.path.join(V, "MANIFEST.json"), "w"), indent=1)
    print("claimed:", sorted(CLAIMS), "n/a:", [x["property_id"] for x in na])

main()
