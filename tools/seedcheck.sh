#!/bin/bash
# usage: seedcheck.sh <seed-dir (contains patch.diff, zz_seed_demo_test.go, notes.md)> <name> <property> [other props to also run]
# 1. confirms the seed in a scratch worktree of /repo HEAD: builds, existing tests of touched packages + root pass,
#    demo fails with the patch and passes without;  2. applies it to /repo, runs the property check(s), reverts.
set -u
export GOFLAGS=-mod=mod GOPROXY=off GOSUMDB=off GOTOOLCHAIN=local
SEED=$1; NAME=$2; PROP=$3; PROP0=$3; shift 3
OUT=/verif/seeded/$NAME
mkdir -p $OUT
cp $SEED/patch.diff $SEED/zz_seed_demo_test.go $OUT/ 2>/dev/null
[ -f $SEED/notes.md ] && cp $SEED/notes.md $OUT/notes.md
WT=/var/tmp/seedwt-$$
git -C /repo worktree add -q --detach $WT HEAD || exit 2
trap 'git -C /repo worktree remove --force $WT >/dev/null 2>&1; rm -rf $WT' EXIT
cd $WT
PKGDIR=$(grep -o 'belongs in[^a-zA-Z./]*[a-zA-Z0-9_./-]*' $OUT/zz_seed_demo_test.go | head -1 | sed 's/belongs in[^a-zA-Z./]*//')
if [ -z "$PKGDIR" ]; then PKGDIR=$(git apply --numstat $OUT/patch.diff | head -1 | awk '{print $3}' | xargs dirname); fi
PKGDIR=${PKGDIR%/}
echo "package dir: $PKGDIR"
cp $OUT/zz_seed_demo_test.go $PKGDIR/zz_seed_demo_test.go
go test -vet=off -count=1 -run '^TestSeedDemo$' ./$PKGDIR/ > $OUT/demo_without.log 2>&1; W=$?
git apply $OUT/patch.diff || { echo "PATCH DOES NOT APPLY"; exit 2; }
go build ./... > $OUT/build.log 2>&1; B=$?
go test -vet=off -count=1 -run '^TestSeedDemo$' ./$PKGDIR/ > $OUT/demo_with.log 2>&1; D=$?
rm $PKGDIR/zz_seed_demo_test.go
go test -vet=off -count=1 ./... > $OUT/suite_with.log 2>&1; S=$?
echo "build=$B suite_with_patch=$S demo_without_patch=$W demo_with_patch=$D"
CONF=no
if [ $B -eq 0 ] && [ $S -eq 0 ] && [ $W -eq 0 ] && [ $D -ne 0 ]; then CONF=yes; fi
echo "confirmed=$CONF"
cd /verif
DET=""
if [ -n "${SEEDCHECK_CONFIRM_ONLY:-}" ]; then set --; PROP=""; fi
if [ -z "${SEEDCHECK_CONFIRM_ONLY:-}" ]; then
if [ -n "$(git -C /repo status --porcelain)" ]; then echo "refusing: /repo has uncommitted changes"; exit 2; fi
# detection run against /repo itself
git -C /repo apply $OUT/patch.diff || { echo "cannot apply to /repo"; exit 2; }
fi
PROPS="$PROP $@"
[ -n "${SEEDCHECK_CONFIRM_ONLY:-}" ] && PROPS=""
for P in $PROPS; do
  ./check.sh $P quick > $OUT/check_$P.log 2>&1; RC=$?
  V=$(grep -c '^VIOLATION' $OUT/check_$P.log)
  echo "check $P: exit=$RC violations=$V"
  grep '^VIOLATION' $OUT/check_$P.log | sed 's/.*obligation=/   /' | head -5
  DET="$DET $P:$RC"
done
if [ -z "${SEEDCHECK_CONFIRM_ONLY:-}" ]; then
git -C /repo checkout -- . 
git -C /repo status --short | grep -v '^??' | head -3
fi
python3 - <<PY
import json
json.dump({"name":"$NAME","property":"$PROP0","confirmed":"$CONF"=="yes","build_rc":$B,"existing_suite_rc_with_patch":$S,"demo_rc_without_patch":$W,"demo_rc_with_patch":$D,"checks_run":"$DET".split(),"what_ran":"tools/seedcheck.sh: scratch worktree of /repo HEAD under /var/tmp; go build ./...; go test -vet=off -count=1 ./... with the patch; TestSeedDemo with and without the patch; then git -C /repo apply, ./check.sh <prop> quick, git -C /repo checkout -- ."},open("$OUT/meta.json","w"),indent=1)
PY
