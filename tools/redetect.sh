#!/bin/bash
# usage: redetect.sh <seed-name> <prop>...   re-runs the property checks with the stored seed applied to /repo
N=$1; shift
cd /verif
if [ -n "$(git -C /repo status --porcelain)" ]; then echo "refusing: /repo has uncommitted changes"; exit 2; fi
git -C /repo apply /verif/seeded/$N/patch.diff || exit 2
for P in "$@"; do ./check.sh $P quick > seeded/$N/check_$P.log 2>&1; echo "$N $P exit=$? $(grep '^VIOLATION' seeded/$N/check_$P.log | sed 's/.*obligation=//' | head -3 | tr '\n' ';')"; done
git -C /repo checkout -- .
