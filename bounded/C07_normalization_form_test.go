package font

// Bounded stand-in (NOT a proof): NormalizeUnicode applies normalisation form C only - canonical composition, no
// compatibility mappings: every code point of the compatibility blocks sampled here (ligatures, superscripts, fractions,
// the trade mark sign, full-width forms, the ellipsis, the no-break space) comes back unchanged, and decomposed
// sequences come back composed.  Runs the REAL function; the normal form is a constant of golang.org/x/text, outside the
// reach of a contract on the Go code.

import (
	"fmt"
	"testing"
)

func TestBoundedNormalizationForm(t *testing.T) {
	n := 0
	keep := [][2]rune{{0xFB00, 0xFB06}, {0x2070, 0x209C}, {0x2150, 0x215F}, {0x2120, 0x2122}, {0xFF01, 0xFF5E}, {0x2026, 0x2026}, {0x00A0, 0x00A0}, {0x00B2, 0x00B3}, {0x00B9, 0x00B9}, {0x00BC, 0x00BE}, {0x2460, 0x24FF}, {0x3300, 0x33FF}}
	for _, r := range keep {
		for c := r[0]; c <= r[1]; c++ {
			s := string(c)
			if got := NormalizeUnicode(s); got != s {
				fmt.Printf("GOCV-BOUNDED: FAIL NormalizeUnicode(%q) = %q (a compatibility mapping was applied)\n", s, got)
				t.FailNow()
			}
			n++
		}
	}
	for _, p := range [][2]string{{"é", "é"}, {"Å", "Å"}, {"ö", "ö"}, {"가", "가"}} {
		if got := NormalizeUnicode(p[0]); got != p[1] {
			fmt.Printf("GOCV-BOUNDED: FAIL NormalizeUnicode(%q) = %q, want %q\n", p[0], got, p[1])
			t.FailNow()
		}
		n++
	}
	fmt.Printf("GOCV-BOUNDED: OK %d cases: canonical composition, no compatibility mapping\n", n)
}
