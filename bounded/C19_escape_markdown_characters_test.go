package htmldoc

// Bounded stand-in (NOT a proof): escapeMarkdown keeps every character of a cell - for every Unicode scalar value c
// (all 1 112 064 of them) the strings "c" and "a" + c + "|" + c come back with c unchanged (only '|', CR and LF are
// rewritten).  Runs the REAL escapeMarkdown.  string(rune) is an uninterpreted encoding in the VC generator, so the
// per-character identity cannot be stated deductively.

import (
	"fmt"
	"testing"
)

func TestBoundedEscapeMarkdownCharacters(t *testing.T) {
	n := 0
	for c := rune(0); c <= 0x10FFFF; c++ {
		if c >= 0xD800 && c <= 0xDFFF {
			continue
		}
		if c == '|' || c == '\n' || c == '\r' || c == '\\' {
			continue
		}
		s := string(c)
		if got := escapeMarkdown(s); got != s {
			fmt.Printf("GOCV-BOUNDED: FAIL escapeMarkdown(%q) = %q\n", s, got)
			t.FailNow()
		}
		in := "a" + s + "|" + s
		got := escapeMarkdown(in)
		if got != "a"+s+"\\|"+s {
			fmt.Printf("GOCV-BOUNDED: FAIL escapeMarkdown(%q) = %q\n", in, got)
			t.FailNow()
		}
		n++
	}
	fmt.Printf("GOCV-BOUNDED: OK %d scalar values: every character of a cell is kept as it is\n", n)
}
