package font

// Exhaustive stand-in (NOT a deductive proof; complete over its finite domain): the WinAnsi and MacRoman byte->rune
// tables agree with the reference code pages of golang.org/x/text/encoding/charmap (Windows-1252, Mac OS Roman) on
// every byte the reference defines, and define nothing where the reference has a hole (0x7F and the five unassigned
// Windows-1252 codes).  Runs over all 256 byte values of both tables of the REAL package.

import (
	"fmt"
	"testing"

	"golang.org/x/text/encoding/charmap"
)

func TestBoundedEncodingTables(t *testing.T) {
	for _, c := range []struct {
		name string
		tab  *[256]rune
		ref  *charmap.Charmap
	}{{"WinAnsiEncoding", &winAnsiTable, charmap.Windows1252}, {"MacRomanEncoding", &macRomanTable, charmap.Macintosh}} {
		for b := 0; b < 256; b++ {
			want := c.ref.DecodeByte(byte(b))
			got := c.tab[b]
			hole := want == 0xFFFD || b == 0x7F
			if hole {
				if got != 0 && got != want {
					fmt.Printf("GOCV-BOUNDED: FAIL %s 0x%02X: table U+%04X where the reference code page has no character\n", c.name, b, got)
					t.Fail()
				}
				continue
			}
			if got != want {
				fmt.Printf("GOCV-BOUNDED: FAIL %s 0x%02X: table U+%04X, reference code page U+%04X\n", c.name, b, got, want)
				t.Fail()
			}
		}
	}
	// the table decoder returns exactly the table entries, in order (also proved deductively for every length)
	enc := GetEncoding("WinAnsiEncoding")
	all := make([]byte, 0, 256)
	for b := 0x20; b < 0x7F; b++ {
		all = append(all, byte(b))
	}
	if s := enc.DecodeString(all); s != string(all) {
		fmt.Printf("GOCV-BOUNDED: FAIL WinAnsi is not the identity on printable ASCII: %q\n", s)
		t.Fail()
	}
}
