package xlsx

// Bounded stand-in (NOT a proof): the r:id attribute of <sheet> is bound whatever namespace URI the r: prefix has
// (Transitional and Strict Open XML) and every declared sheet carries the content of the part its relationship names,
// for every permutation of three sheets against three parts.  Runs the REAL Open / Sheet on generated workbooks.
// xml.Unmarshal's attribute matching (struct tags) is library behaviour the VC generator does not model.

import (
	"archive/zip"
	"fmt"
	"os"
	"path/filepath"
	"testing"
)

func TestBoundedSheetRelationshipBinding(t *testing.T) {
	flavours := []struct{ main, rel string }{
		{"http://schemas.openxmlformats.org/spreadsheetml/2006/main", "http://schemas.openxmlformats.org/officeDocument/2006/relationships"},
		{"http://purl.oclc.org/ooxml/spreadsheetml/main", "http://purl.oclc.org/ooxml/officeDocument/relationships"},
	}
	perms := [][3]int{{1, 2, 3}, {1, 3, 2}, {2, 1, 3}, {2, 3, 1}, {3, 1, 2}, {3, 2, 1}}
	n := 0
	for _, fl := range flavours {
		for _, pm := range perms {
			// sheet k (in workbook order) is named S<k> and points through rId<pm[k]> at worksheets/sheet<pm[k]>.xml
			sheets, rels := "", ""
			for k, part := range pm {
				sheets += fmt.Sprintf(`<sheet name="S%d" sheetId="%d" r:id="rId%d"/>`, k, k+1, part)
				rels += fmt.Sprintf(`<Relationship Id="rId%d" Type="%s/worksheet" Target="worksheets/sheet%d.xml"/>`, part, fl.rel, part)
			}
			parts := [][2]string{
				{"[Content_Types].xml", `<?xml version="1.0"?><Types xmlns="http://schemas.openxmlformats.org/package/2006/content-types"></Types>`},
				{"xl/workbook.xml", `<?xml version="1.0"?><workbook xmlns="` + fl.main + `" xmlns:r="` + fl.rel + `"><sheets>` + sheets + `</sheets></workbook>`},
				{"xl/_rels/workbook.xml.rels", `<?xml version="1.0"?><Relationships xmlns="http://schemas.openxmlformats.org/package/2006/relationships">` + rels + `</Relationships>`},
			}
			for p := 1; p <= 3; p++ {
				parts = append(parts, [2]string{fmt.Sprintf("xl/worksheets/sheet%d.xml", p),
					`<?xml version="1.0"?><worksheet xmlns="` + fl.main + `"><sheetData><row r="1"><c r="A1" t="inlineStr"><is><t>` + fmt.Sprintf("part-%d", p) + `</t></is></c></row></sheetData></worksheet>`})
			}
			path := filepath.Join(t.TempDir(), "w.xlsx")
			f, err := os.Create(path)
			if err != nil {
				t.Fatal(err)
			}
			zw := zip.NewWriter(f)
			for _, p := range parts {
				w, _ := zw.Create(p[0])
				w.Write([]byte(p[1]))
			}
			zw.Close()
			f.Close()
			r, err := Open(path)
			if err != nil {
				fmt.Printf("GOCV-BOUNDED: FAIL Open(%v, %s): %v\n", pm, fl.rel, err)
				t.FailNow()
			}
			for k, part := range pm {
				s, err := r.Sheet(k)
				got := ""
				if err == nil && len(s.Rows) > 0 && len(s.Rows[0]) > 0 {
					got = s.Rows[0][0].Value
				}
				if err != nil || s.Name != fmt.Sprintf("S%d", k) || got != fmt.Sprintf("part-%d", part) {
					fmt.Printf("GOCV-BOUNDED: FAIL sheet %d of workbook %v (r: = %s): name %q, A1 %q, want S%d / part-%d (%v)\n", k, pm, fl.rel, s.Name, got, k, part, err)
					r.Close()
					t.FailNow()
				}
			}
			r.Close()
			n++
		}
	}
	fmt.Printf("GOCV-BOUNDED: OK %d workbooks (2 namespace flavours x 6 sheet/part permutations), every sheet read from the part its relationship names\n", n)
}
