package pptx

// Bounded stand-in (NOT a proof): the PPTX table-cell escaper leaves no line break, escapes every '|' (also the last byte
// of a cell) and keeps every other character as it is - for every string of up to 5 symbols over {a, |, LF, CR, é, 日}
// (9331 strings).  Runs the REAL escapeMarkdown / replaceAll.

import (
	"fmt"
	"strings"
	"testing"
)

func TestBoundedCellEscape(t *testing.T) {
	alphabet := []string{"a", "|", "\n", "\r", "é", "日"}
	n := 0
	var rec func(prefix string, depth int)
	rec = func(prefix string, depth int) {
		got := escapeMarkdown(prefix)
		want := strings.NewReplacer("|", "\\|", "\n", " ", "\r", " ").Replace(prefix)
		if got != want {
			fmt.Printf("GOCV-BOUNDED: FAIL escapeMarkdown(%q) = %q, want %q\n", prefix, got, want)
			t.FailNow()
		}
		n++
		if depth == 5 {
			return
		}
		for _, a := range alphabet {
			rec(prefix+a, depth+1)
		}
	}
	rec("", 0)
	fmt.Printf("GOCV-BOUNDED: OK %d strings: no line break survives, every '|' is escaped, other characters are kept\n", n)
}
