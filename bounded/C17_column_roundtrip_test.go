package xlsx

// Bounded stand-in (NOT a proof): the column-name conversion is a bijection on every column index below
// 26 + 26^2 + 26^3 = 18278 (all names of one to three letters; Excel's last column XFD is 16383).
// Runs the REAL IndexToColumn / ColumnToIndex / CellRef / ParseCellRef exhaustively.

import (
	"fmt"
	"testing"
)

func TestBoundedColumnRoundTrip(t *testing.T) {
	const bound = 26 + 26*26 + 26*26*26
	seen := make(map[string]int, bound)
	prev := ""
	for i := 0; i < bound; i++ {
		name := IndexToColumn(i)
		if back := ColumnToIndex(name); back != i {
			fmt.Printf("GOCV-BOUNDED: FAIL ColumnToIndex(IndexToColumn(%d)=%q) = %d\n", i, name, back)
			t.FailNow()
		}
		if j, dup := seen[name]; dup {
			fmt.Printf("GOCV-BOUNDED: FAIL IndexToColumn(%d) == IndexToColumn(%d) == %q\n", i, j, name)
			t.FailNow()
		}
		seen[name] = i
		// names are enumerated in shortlex order: A..Z, AA..ZZ, AAA..
		if i > 0 && !(len(prev) < len(name) || (len(prev) == len(name) && prev < name)) {
			fmt.Printf("GOCV-BOUNDED: FAIL order: IndexToColumn(%d)=%q does not follow %q\n", i, name, prev)
			t.FailNow()
		}
		prev = name
	}
	// A1 notation <-> (column,row) on a grid of columns x sampled rows
	rows := []int{0, 1, 8, 9, 10, 98, 99, 100, 1048575}
	for i := 0; i < bound; i += 7 {
		for _, r := range rows {
			ref := CellRef(i, r)
			c, rr, err := ParseCellRef(ref)
			if err != nil || c != i || rr != r {
				fmt.Printf("GOCV-BOUNDED: FAIL ParseCellRef(CellRef(%d,%d)=%q) = (%d,%d,%v)\n", i, r, ref, c, rr, err)
				t.FailNow()
			}
		}
	}
}
